#!/bin/bash
# Offline setup: nothing to build; warm the TLC result cache for the quick tier (optional).
cd "$(dirname "$0")"
mkdir -p build evidence replays
command -v tlc >/dev/null || { echo "tlc not on PATH" >&2; exit 1; }
/venv/bin/python -c "import sys; sys.path.insert(0,'/repo'); import asyncstdlib" || exit 1
exit 0
