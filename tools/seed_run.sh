#!/bin/bash
# tools/seed_run.sh <seeded/CxxV> <prop> [tier] : run a check against /repo HEAD + the seeded patch (scratch worktree, removed afterwards)
d=$(readlink -f "$1"); prop=$2; tier=${3:-quick}
wt=/tmp/mut/run_$(basename "$d")_$prop; rm -rf "$wt"; mkdir -p /tmp/mut
git -C /repo worktree add -q --detach "$wt" HEAD || exit 2
( cd "$wt" && { git apply "$d/patch.diff" 2>/dev/null || git apply -3 "$d/patch.diff" 2>/dev/null || echo "APPLY-FAILED"; } )
cd ${VERIF_HOME:-/verif}
VERIF_REPO="$wt" ./check "$prop" --tier "$tier" > "/tmp/mut/out_$(basename "$d")_$prop.txt" 2>&1; rc=$?
sigs=$(grep -o 'signature=[^ ]*' "/tmp/mut/out_$(basename "$d")_$prop.txt" | sort -u | tr '\n' ' ')
echo "$(basename "$d") $prop rc=$rc $sigs $(grep -m1 -E 'MACHINERY|APPLY' /tmp/mut/out_$(basename "$d")_$prop.txt | cut -c1-200)"
git -C /repo worktree remove --force "$wt"
