#!/bin/bash
# run every seeded change against the check of its own property (quick tier); prints one line per seed
cd /verif
for d in seeded/C*; do s=$(basename $d); p=${s:0:3}; tools/seed_run.sh $d $p | cut -c1-400; done
