#!/venv/bin/python
"""Write seeded/MATRIX.md and refresh seeded/*/meta.json.

usage: tools/seed_meta.py --confirm <file>... --matrix <file>... [--cross <file>...]

--confirm : outputs of tools/seed_confirm.sh (later files override earlier ones per seed)
--matrix  : outputs of tools/seed_matrix2.sh / seed_run.sh: "<seed> <prop> rc=<n> signature=..." where <prop> is the
            seed's own property (later files override earlier ones per seed)
--cross   : the same format for runs of a seed against the check of ANOTHER property
Everything written about a seed is what those runs printed; nothing is assumed.
"""
import json
import os
import re
import sys

ROOT = os.path.dirname(os.path.dirname(os.path.abspath(__file__)))
SEED = r"C\d\d[a-z]"

args = {"--confirm": [], "--matrix": [], "--cross": []}
cur = None
for a in sys.argv[1:]:
    if a in args:
        cur = a
    else:
        args[cur].append(a)

CONF = {}
for fn in args["--confirm"]:
    for l in open(fn):
        m = re.match(rf"seeded/({SEED})/? apply=(\S+) tests=\[(.*?)\] demo_patched=(\d+) demo_clean=(\d+)", l)
        if m:
            CONF[m.group(1)] = {"apply": m.group(2), "tests": m.group(3), "demo_patched": int(m.group(4)), "demo_clean": int(m.group(5))}


def rows_of(files):
    out = {}
    for fn in files:
        for l in open(fn):
            m = re.match(rf"({SEED}) (C\d\d) rc=(\d+)(.*)", l)
            if m:
                sigs = sorted(set(re.findall(r"signature=(C\d\d/\S+)", m.group(4))))
                out.setdefault(m.group(1), {})[m.group(2)] = (int(m.group(3)), sigs)
    return out


OWN = rows_of(args["--matrix"])
CROSS = rows_of(args["--cross"])


def confirmed(c):
    return bool(c) and c["apply"] != "FAIL" and c["tests"].startswith("388 passed") and c["demo_patched"] != 0 and c["demo_clean"] == 0


ROUND = {"a": 1, "b": 1, "c": 2, "d": 2, "e": 3, "f": 3, "g": 4, "h": 4, "i": 5, "j": 5, "k": 6, "l": 6, "m": 7, "n": 7, "o": 8, "p": 8, "q": 9, "r": 9, "s": 10, "t": 10, "u": 11, "v": 11}
out = ["# Seeded changes x checks", "",
       "Each change was written by an independent sub-agent from the text of one property only (round = pair of variant letters:",
       "a,b / c,d / e,f / g,h / i,j / k,l / m,n / o,p / q,r / s,t / u,v; every later round was told the one-line summaries of the earlier ones).  Every line below is",
       "what two scripts printed on scratch worktrees of `/repo`: `tools/seed_confirm.sh` (the patch applies, the 388",
       "tests pass with it, the demo fails with it and passes without it; all 440 re-run on `/repo` HEAD c96b849) and `tools/seed_run.sh`",
       "(quick check of the seed's own property against HEAD + patch; run from a committed snapshot of `/verif`).  The check runs are not",
       "all of the same age: rounds 10-11 were run with the harness of the last evening (6ba38da or later; a few rows of the heaviest checks are from the run made when the seed was imported or re-tested) against c96b849; of rounds 1-9, the seeds C01a-C04f,",
       "C06a-C06r, C11a-C14d and C16a-C16m were re-run with harness ec12f3e against c96b849, the others were last run with harness 9b7514e (a-p) /",
       "0437266 (q, r) against `/repo` b4c4a7a -- re-running all 440 takes longer than the machine was free (later harness commits only add",
       "observations).  What was missed when a round was first run, and what was added because of it, is in DESIGN.md section 8.", "",
       "| seed | round | summary | needs | still a breaking change on HEAD | caught by its own check (exit 1) | signatures (first 3) |", "|---|---|---|---|---|---|---|"]
n = {"seeds": 0, "breaking": 0, "caught": 0, "cross": 0, "not": []}
for seed in sorted(os.listdir(os.path.join(ROOT, "seeded"))):
    if not re.fullmatch(SEED, seed):
        continue
    mp = os.path.join(ROOT, "seeded", seed, "meta.json")
    meta = json.load(open(mp))
    prop = seed[:3]
    c = CONF.get(seed)
    own = OWN.get(seed, {}).get(prop)
    cross = {p: v for p, v in CROSS.get(seed, {}).items() if p != prop}
    meta["confirmed"] = {"how": "tools/seed_confirm.sh seeded/" + seed, "observed": c if c else "not re-run",
                         "still_a_breaking_change": confirmed(c) if c else None}
    meta["checked_with"] = f"tools/seed_run.sh seeded/{seed} {prop}"
    meta["caught"] = (own[0] == 1) if own else None
    meta["signatures"] = own[1][:8] if own else []
    meta["caught_by_other_checks"] = {p: v[1][:4] for p, v in cross.items() if v[0] == 1}
    meta.pop("obsolete", None)
    if c and not confirmed(c):
        meta["obsolete"] = "no longer a breaking change on the current /repo HEAD (a later fix: commit made it harmless): " + json.dumps(c)
    json.dump(meta, open(mp, "w"), indent=1)
    n["seeds"] += 1
    brk = confirmed(c) if c else None
    n["breaking"] += bool(brk)
    if own is None:
        verdict = "not run"
    elif own[0] == 1:
        verdict = "yes"
        n["caught"] += bool(brk)
    elif own[0] == 0:
        others = [p for p, v in cross.items() if v[0] == 1]
        verdict = "NO" + (f" (caught by {', '.join(others)})" if others else "")
        if brk:
            n["cross"] += bool(others)
            if not others:
                n["not"].append(seed)
    else:
        verdict = f"machinery error (exit {own[0]})"
        if brk:
            n["not"].append(seed)
    summ = str(meta.get("summary", "")).replace("|", "/").replace("\n", " ")[:160]
    need = str(meta.get("needs_to_manifest", "")).replace("|", "/").replace("\n", " ")[:140]
    sigs = own[1][:3] if own else []
    out.append(f"| {seed} | {ROUND.get(seed[3], '?')} | {summ} | {need} | {'yes' if brk else 'NO (obsolete)' if brk is False else '?'} | {verdict} | {'<br>'.join(sigs)} |")
out += ["", f"Totals: {n['seeds']} seeds, {n['breaking']} still breaking on HEAD; of those {n['caught']} caught by the check of their own property,",
        f"{n['cross']} more by the check of another property, not caught by any: {', '.join(n['not']) or 'none'}."]
open(os.path.join(ROOT, "seeded", "MATRIX.md"), "w").write("\n".join(out) + "\n")
print(n)
