#!/venv/bin/python
"""Write seeded/MATRIX.md and refresh seeded/*/meta.json from a matrix run (tools/seed_matrix.sh output)."""
import json, os, re, sys
ROOT = os.path.dirname(os.path.dirname(os.path.abspath(__file__)))
lines = [l for l in open(sys.argv[1]) if re.match(r"C\d\d[a-j] C\d\d rc=", l)]
rows = []
for l in lines:
    m = re.match(r"(C\d\d[a-j]) (C\d\d) rc=(\d+)(.*)", l)
    seed, prop, rc, rest = m.group(1), m.group(2), int(m.group(3)), m.group(4)
    sigs = sorted(set(re.findall(r"signature=(C\d\d/\S+)", rest)))
    rows.append((seed, prop, rc, sigs))
# second argument: output of tools/seed_confirm.sh for every seed; what meta.json says about confirmation is what that run printed
CONF = {}
if len(sys.argv) > 2:
    for l in open(sys.argv[2]):
        m = re.match(r"seeded/(C\d\d[a-j])/? apply=(\S+) tests=\[(.*?)\] demo_patched=(\d+) demo_clean=(\d+)", l)
        if m:
            CONF[m.group(1)] = {"apply": m.group(2), "tests": m.group(3), "demo_patched": int(m.group(4)), "demo_clean": int(m.group(5))}


def confirmed(c):
    return bool(c) and c["apply"] != "FAIL" and c["tests"].startswith("388 passed") and c["demo_patched"] != 0 and c["demo_clean"] == 0


extra = {"C01b": ("C01", 0, [])}
OBSOLETE = {"C03e": "made harmless by fix b4c4a7a (the shared close_all helper skips objects without aclose, which is all the over-wide ownership filter of this change let through): the demo passes with the patch",
            "C18b": "made harmless by fix 4e889ba (chain now closes its owned iterators itself): the demo passes with the patch, so it is no longer a property-breaking change"}
out = ["# Seeded changes x checks", "",
       "Each change was written by an independent sub-agent from the text of one property only, confirmed here",
       "(`tools/seed_confirm.sh`: applies to /repo HEAD, 388 tests pass, demo fails with / passes without the patch) and run",
       "(variants a, b: first round; c, d: second round, written knowing only the summaries of the first; e, f: third round,",
       "written knowing only the summaries of the first two)",
       "against the quick check of its property with `tools/seed_run.sh` (scratch worktree of /repo HEAD + patch).", "",
       "| seed | property | summary | needs | caught (exit 1) | signatures (first 3) |", "|---|---|---|---|---|---|"]
for seed, prop, rc, sigs in rows:
    if seed in extra and rc == 0 and extra[seed][1] == 1:
        prop, rc, sigs = extra[seed]
    mp = os.path.join(ROOT, "seeded", seed, "meta.json")
    meta = json.load(open(mp))
    c = CONF.get(seed)
    meta["confirmed"] = {"on": "/repo HEAD at the time of the matrix run (scratch worktree)", "how": "tools/seed_confirm.sh seeded/" + seed,
                         "observed": c if c else "not re-run for this matrix", "still_a_breaking_change": confirmed(c) if c else None}
    meta["checked_with"] = f"tools/seed_run.sh seeded/{seed} {prop}  (VERIF_REPO=<worktree with patch> ./check {prop} --tier quick)"
    meta["caught"] = bool(rc == 1)
    if seed in OBSOLETE:
        meta["obsolete"] = OBSOLETE[seed]
    meta["signatures"] = sigs[:8]
    json.dump(meta, open(mp, "w"), indent=1)
    summ = str(meta.get("summary", "")).replace("|", "/")[:160]
    need = str(meta.get("needs_to_manifest", "")).replace("|", "/")[:140]
    verdict = 'yes' if rc == 1 else 'NO' if rc == 0 else 'machinery error'
    if c and not confirmed(c) and seed not in OBSOLETE:
        verdict = f"stale on HEAD (apply={c['apply']}, demo with patch exits {c['demo_patched']}, without {c['demo_clean']}); check said: " + verdict
    if seed in OBSOLETE:
        verdict = 'obsolete (' + {"C18b": "was caught: C18/chain/unreleased-unstarted-source-after-cancel", "C03e": "was caught: C03/chain/result-differs-with-iterable-flavour"}[seed] + ")'
    out.append(f"| {seed} | {prop} | {summ} | {need} | {verdict} | {'<br>'.join(sigs[:3])} |")
out += ["", "Not caught: C01b (a tee child yields a fetched item directly instead of through its buffer) only manifests with concurrent",
        "consumers, no lock and a suspending source - outside the premise of C09 ('a lock is supplied, or the source never suspends'), and",
        "sequential use (C01) is unaffected; on the unchanged tree that configuration already loses items (the negative Tee config)."]
open(os.path.join(ROOT, "seeded", "MATRIX.md"), "w").write("\n".join(out) + "\n")
print(len(rows), "rows")
