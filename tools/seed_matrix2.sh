#!/bin/bash
# run every given seed against the quick check of its own property (each under a time limit: a seeded change may hang a check)
cd ${VERIF_HOME:-/verif}
for d in "$@"; do s=$(basename $d); p=${s:0:3}; timeout 1800 tools/seed_run.sh $d $p | cut -c1-400; [ ${PIPESTATUS[0]} -eq 124 ] && echo "$s $p rc=124 TIMEOUT"; done
