#!/bin/bash
cd ${VERIF_HOME:-/verif}
for d in "$@"; do s=$(basename $d); p=${s:0:3}; tools/seed_run.sh $d $p | cut -c1-400; done
