#!/bin/bash
# tools/seed_confirm.sh <seed dir with patch.diff demo.py> : confirm a seeded change on a scratch worktree of /repo HEAD
# prints: <dir> apply=ok tests=388 demo_patched=1 demo_clean=0
d=$(readlink -f "$1"); name=$(echo "$d" | tr '/' '_')
wt=/tmp/mut/$name; rm -rf "$wt"; mkdir -p /tmp/mut
git -C /repo worktree add -q --detach "$wt" HEAD || exit 2
cd "$wt"
mkdir -p seed_out/x; cp "$d/demo.py" seed_out/x/demo.py
/venv/bin/python seed_out/x/demo.py >/dev/null 2>&1; clean=$?
if git apply "$d/patch.diff" 2>/dev/null; then ap=ok; elif git apply -3 "$d/patch.diff" 2>/dev/null; then ap=3way; else ap=FAIL; fi
tests=$(/venv/bin/python -m pytest -q -p no:cacheprovider unittests 2>&1 | tail -1)
/venv/bin/python seed_out/x/demo.py >/dev/null 2>&1; patched=$?
echo "$1 apply=$ap tests=[$tests] demo_patched=$patched demo_clean=$clean"
cd /; git -C /repo worktree remove --force "$wt"
