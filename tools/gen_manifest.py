#!/venv/bin/python
"""Regenerate MANIFEST.json from the table below (keeps it schema-valid)."""
import json, os
ROOT = os.path.dirname(os.path.dirname(os.path.abspath(__file__)))
props = [json.loads(l) for l in open(os.path.join(ROOT, "properties.jsonl"))]

TM_NOTE = ("Trusted: TLC 1.8.0 + CommunityModules (Json/CSV), the ~1.5k lines of harness (driver, instruments, projections), "
           "CPython 3.12.1 as 'the standard library'. Exhaustive only within the constants of the tier (quick: <=3 items, <=2 "
           "sources; thorough: <=4 items, <=3 sources) and the parameter sets of ConfigsOf; instrumented sources stand for all sources.")

CHECKS = {
 "C01": dict(engine="toolmachine", design="5/C01", technique="TLA+ ToolMachine spec, TLC exhaustive case enumeration + declarative invariants, every case replayed into asyncstdlib and the stdlib twin",
   text="TLC enumerates every (tool, parameters, data) case of spec/ToolMachine.tla within the tier's bounds, proves the per-tool state machines equal to independent declarative definitions (DeclZip, DeclISlice, DeclMerge, ...), and every fully-consumed case is replayed into the real asyncstdlib (items by identity + ending compared with the spec) and into the synchronous stdlib (spec honesty)."),
 "C02": dict(engine="toolmachine", design="5/C02", technique="TLA+ ToolMachine spec (aggregation machines), TLC exhaustive + replay into asyncstdlib and stdlib twin",
   text="Aggregations are ToolMachine tools ending in Return/Raise; TLC enumerates all inputs with ties among distinguishable items, parameters (key, default, start, initial, n, reverse) and checks DeclSorted/DeclMinMax; each case is replayed into asyncstdlib: returned objects by identity, exception type, key invocations, in-place mutation of start."),
 "C04": dict(engine="toolmachine", design="5/C04", technique="TLA+ ToolMachine spec with consumer-prefix and fault branching, TLC exhaustive; lifecycle of instrumented sources checked at completion of every replay",
   text="Every leaf of the ToolMachine tree (each consumer prefix 0..len+1 then close, each single fault position) is replayed with class-based and async-generator sources and two exception kinds; at the moment the close/raise/exhaustion completes every passed async iterator must be closed or exhausted (chain.from_iterable ownership rule encoded)."),
 "C05": dict(engine="toolmachine", design="5/C05", technique="TLA+ ToolMachine spec: the log variable is the interleaving of pulls/calls/yields; TLC exhaustive over consumer prefixes; exact log equality on replay",
   text="The spec's log is the stdlib-shaped interleaving of pulls, end detections, callable invocations (with arguments) and yields; it is validated event for event against the stdlib twin and compared for equality with what instrumented sources/callables record around asyncstdlib, for every consumer prefix."),
 "C06": dict(engine="toolmachine", design="5/C06", technique="TLA+ ToolMachine spec with a fault branch at every use (NoUseAfterFault invariant), TLC exhaustive; replay with injected exception objects",
   text="At every pull and callable invocation of every case the spec branches into 'this use raises'; each such leaf is replayed with an Exception and a TypeError instance: items delivered before, identity of the exception reaching the consumer, and no use after the failure are checked."),
 "C09": dict(engine="tee", design="5/C09", technique="TLA+ Tee spec (cooperative tasks), TLC exhaustive over all interleavings + edge-cover replay into the real tee + TLC trace validation of recorded runs against TeeObs",
   text="spec/Tee.tla models tee_peer action by action; TLC explores every interleaving of 2..4 children with lock/suspending source/early close/cancel and checks the C09 sentences as invariants (plus a negative config outside the premise that must fail); every transition of the state graph is replayed into the real asyncstdlib.tee with hand-driven tasks (state projection compared after each step, then drained), and the recorded observable events of drifted replays, a sample of the others and random schedules beyond the bounds are validated by TLC against spec/TeeObs.tla (order, completeness, fetch-once, no overlap under lock, source closed exactly when the last child is done, weak-reference census).",
   note="Trusted: TLC, the harness (driver, TeeSys adapter, projection), CPython weak-reference/gc behaviour for the census. Exhaustive within the tier's constants; cancellation uses a cancellation-safe class-based source; named deviation UnstartedCloseLeaks models the code as it is (open known finding)."),
 "C10": dict(engine="lru", design="5/C10", technique="TLA+ Lru spec (key classes transcribed from _make_key), TLC exhaustive over all histories <= MaxOps, edge-cover replay into asyncstdlib and functools.lru_cache, TLC trace validation of long random histories (LruTrace)",
   text="spec/Lru.tla models the cache as an LRU-ordered sequence of key classes with KeyOf transcribing the key construction (typed, fast path, keyword order, instance prefix for methods); TLC explores every history of calls/failing calls/clear/discard up to MaxOps per configuration (maxsize None/<0/0/1..5/default, typed, function/method/classmethod/staticmethod, bare/cache forms); every transition is replayed into asyncstdlib.lru_cache and functools.lru_cache comparing result identity, invocation log, cache_info and cache_parameters after each step and a drain that exposes the hidden recency order; 40-60 step random histories are recorded and validated by TLC against the same spec.",
   note="Trusted: TLC, harness, CPython functools.lru_cache as oracle (cache_discard judged by the spec alone). 16 argument patterns; hashable arguments only."),
 "C11": dict(engine="lruconc", design="5/C11", technique="TLA+ LruConc spec (two critical sections per call), TLC exhaustive over interleavings + edge-cover replay with hand-driven tasks + TLC trace validation against LruObs",
   text="spec/LruConc.tla splits __call__ at its single await (lookup/count, then re-check/evict/insert) with failing and cancelled calls, cache_clear and cache_discard interleaved; TLC checks SizeBound/NoDup on every interleaving of 2..4 tasks; every transition is replayed into the real cache (cache_info and task states compared per step, then drain and a sequential probe of every key), and recorded events (values with invocation ids, cache_info samples) of drifted replays, a sample of the others and random schedules are validated by TLC against spec/LruObs.tla (value provenance, hits+misses=calls, misses=invocations, currsize<=maxsize, nothing cached by failed/cancelled calls).",
   note="Trusted: TLC, harness. Statistics are counted since the last cache_clear (the only reading under which the sentence can hold with interleaved clears)."),
 "C12": dict(engine="cprop", design="5/C12", technique="TLA+ CachedProp spec (slot/placeholder/lock protocol), TLC exhaustive over histories and interleavings + edge-cover replay + TLC trace validation against CPropObs",
   text="spec/CachedProp.tla models the descriptor, the placeholder's _await_impl (check, lock, re-check, getter, store), deletion with re-entry through the descriptor, failing getters and cancellation, one lock per placeholder; TLC checks one-getter-per-placeholder/instance, at-most-once, genuine values and lock-free-at-rest for sequential histories (1 task, <=5 operations, 2 instances, del) and for 2..4 concurrent awaiters with and without lock; every transition is replayed into the real cached_property (slot, task states, values, lock holders compared per step) and recorded events are validated by TLC against spec/CPropObs.tla (getter only runs when nothing is cached, value provenance, value-at-access semantics, nothing cached by failed/cancelled runs, locks free at rest).",
   note="Trusted: TLC, harness (instrumented lock type, one instance per placeholder). Without a lock type placeholders are compared modulo their identity."),
 "C13": dict(engine="ctxmgr", design="5/C13", technique="TLA+ CtxMgr spec (enter/block/exit/classify machine over the full program grammar), TLC exhaustive case enumeration, every case run as a real async generator under asyncstdlib.contextmanager and contextlib.asynccontextmanager",
   text="spec/CtxMgr.tla is the step machine of `async with` over the complete grammar of the quantifier (3 pre x 10 handlers x 3 post x 8 block outcomes) for two libraries; the 'stdlib' table is validated case by case against contextlib.asynccontextmanager, the 'asyncstdlib' table (identical except the GeneratorExit=aclose rule, 11 cases) is compared with the real contextmanager: value bound, how often the generator is driven, and the classified final outcome (same object / suppressed / RuntimeError kind / replaced). The space is finite and fully enumerated in both tiers.",
   note="Trusted: TLC, the program generator and outcome classifier in harness/eng_ctx.py, CPython 3.12 contextlib as twin."),
 "C16": dict(engine="groupby", design="5/C16", technique="TLA+ GroupBy spec (shared look-ahead state machine), TLC exhaustive over data x operation orders, edge-cover replay into asyncstdlib.groupby and itertools.groupby, TLC trace validation of random histories (GroupByTrace)",
   text="spec/GroupBy.tla transcribes groupby_next/_grouper_next (look-ahead item, target key, live group) with pulls and end detections counted; TLC explores every order of advancing the groupby iterator and any group ever returned for all inputs within bounds and checks run/laziness invariants; every transition is replayed with three key flavours into asyncstdlib.groupby and itertools.groupby (keys, items by identity, stops, pull and key-call counts after every operation); longer random inputs/histories are validated by TLC against the same spec.",
   note="Trusted: TLC, harness, CPython itertools.groupby as twin. Keys with reflexive equality; quick: <=5 items over 2 keys / <=4 over 3; thorough: <=6 over 2, <=5 over 3; traces up to 10 items over 4 keys."),
 "C14": dict(engine="exitstack", design="5/C14", technique="TLA+ ExitStack spec (unwind loop with suppress/reraise flags vs recursive nested-with definition), TLC exhaustive over stacks and histories, edge-cover replay into ExitStack, nested `async with` and contextlib.AsyncExitStack",
   text="spec/ExitStack.tla transcribes __aexit__'s loop and flags as one step per exit callable and TLC proves it equal to the recursive definition of nested with-statements (NestedEq) for every stack of 0..3|4 entries x {exit, callback} x {falsy, truthy, raise, raise-while-handling, re-raise} x block {normal, raises}, and Once/OnlyOwner over all histories of register/enter-failure/pop_all/leave/aclose/unwind-again; every transition is replayed with rotating concrete kinds (async/sync CM, pushed async/sync callable, pushed manager, async/sync callback with arguments; Exception and BaseException replacements): order of exits, exception object each received, outcome, exactly-once; the recursively built nested `async with` and contextlib.AsyncExitStack must agree with the spec on every replay.",
   note="Trusted: TLC, harness. __context__ chains are not compared (not part of the statement) - but an unwind that never returns is reported (2 s guard)."),
 "C07": dict(engine="handles", design="5/C07", technique="TLA+ Handles spec (tree of handles over one underlying iterator), TLC exhaustive over operation histories, edge-cover replay into asyncstdlib.borrow with instrumented underlying iterators",
   text="spec/Handles.tla models borrowed (and scoped) handles as a tree over the underlying iterator with the actions borrow/re-borrow, next on any handle or on the underlying, aclose directly or via iter(h), handing a handle to a closing tool (islice: exactly j items; zip: one pull more), asend; TLC checks BorrowNeverCloses/InOrder over all histories within bounds; every transition is replayed over class-based, async-generator, asend/athrow-capable and athrow-only underlying iterators comparing items, pulls, end detections and aclose calls seen by the underlying after every operation, then probing every ended handle (yields nothing, does not advance or reach the underlying through __anext__/asend/athrow) and that the underlying continues in order.",
   note="Trusted: TLC, harness. Closing tools are represented by islice and zip; how much another tool consumes is C05's business."),
 "C08": dict(engine="handles", design="5/C08", technique="TLA+ Handles spec (scope handles: aclose is a no-op, leaving the block ends the handle and closes the parent), TLC exhaustive, edge-cover replay into asyncstdlib.scoped_iter",
   text="Same specification with scope handles: nested scopes 1..3 deep (also over a borrowed handle), tools applied inside the block, exits by fall-through/exception/cancellation in LIFO order; TLC checks that nothing inside the block closes the underlying iterator; every transition is replayed: successive tools see consecutive items, the underlying observes aclose exactly at the outermost exit (once), inner exits end only their own handle, ended handles yield nothing.",
   note="Trusted: TLC, harness. Cancellation of the block is represented by __aexit__ receiving a BaseException (the block itself does not suspend); suspension inside tools is covered by C18."),
 "C15": dict(engine="decorator", design="5/C15", technique="TLA+ Decorator spec (per-call enter/body/exit machines), TLC exhaustive over interleavings of 2..3 concurrent calls and sequential repeats with cancellation, edge-cover replay with hand-driven tasks",
   text="spec/Decorator.tla models each decorated call as Start/EnterDone/BodyEnd/ExitDone with a suspension in enter, body and exit and cancellation at each; TLC checks OwnGenerator/Paired/Result for generator-based and class-based managers, suppressing or not; every transition is replayed into a real decorated coroutine function: per call the enter/exit counts, the generator instance serving it, the exception its exit saw and its result.",
   note="Trusted: TLC, harness (instrumented managers)."),
 "C19": dict(engine="toolmachine", design="5/C19", technique="TLA+ ToolMachine spec (adapter machines with an Await effect), TLC exhaustive over shapes, prefixes and faults; replay with exact log equality",
   text="any_iter, await_each, apply and sync are ToolMachine tools whose steps request Await/Pull/Call/Yield effects; TLC enumerates all item lists, {plain, awaitable outer} x {plain, awaitable items}, every consumer prefix, every positional/keyword split for apply and a failure at every await/pull/call; each case is replayed with list / iterator / async-iterator sources and def / async def / partial / callable-object functions and the recorded interleaving of awaits, pulls, calls and yields must equal the spec's (await_each awaits item j only after the consumer asked for it; apply awaits positionals then keywords in order), failures surface as the injected object; sync(f) is f for coroutine functions.",
   note="Trusted: TLC, harness. asynctools has no standard-library twin: the specification is the reference."),
}

def main():
    checks, na = [], []
    for p in props:
        pid = p["id"]
        c = CHECKS.get(pid)
        if not c:
            na.append({"property_id": pid, "reason": "check not built yet (build in progress; planned per DESIGN.md section 5)"})
            continue
        checks.append({
            "property_id": pid,
            "quick_cmd": f"./check {pid} --tier quick",
            "thorough_cmd": f"./check {pid} --tier thorough",
            "evidence_file": f"/verif/evidence/{pid}.json",
            "replay_cmd_template": f"./check {pid} --replay {{path}}",
            "engine": c["engine"],
            "level_claimed": {"category": "model_checking", "text": c["text"], "design_ref": c["design"]},
            "level_note": c.get("note", TM_NOTE),
            "technique": c["technique"],
        })
    engines = {}
    for ch in checks:
        engines.setdefault(ch["engine"], []).append(ch["property_id"])
    m = {
        "version": 1,
        "setup_cmd": "./setup.sh",
        "hooks": {"guard": "ASYNCSTDLIB_VERIF",
                  "enable": "no source hooks are used: all observation is through instrumented arguments (sources, callables, locks, context managers) and hand-driven coroutines; checks import asyncstdlib from /repo's working tree",
                  "baseline_off_cmd": "cd /repo && /venv/bin/python -m pytest -ra -q -p no:cacheprovider --timeout=900 --continue-on-collection-errors",
                  "source_commits": [], "add_only": True},
        "engines": [{"name": n, "path": f"/verif/harness", "serves_properties": ps,
                     "kind_free_text": "TLA+ spec checked by TLC + Python conformance harness (spec->code replay, code->spec trace validation)"} for n, ps in engines.items()],
        "checks": checks,
        "notes": "Model-based verification with explicit TLA+ specifications (spec/*.tla), see DESIGN.md. known_findings.json lists fixed and open findings.",
        "not_applicable": na,
    }
    json.dump(m, open(os.path.join(ROOT, "MANIFEST.json"), "w"), indent=1)
    print("checks:", [c["property_id"] for c in checks], "pending:", len(na))

main()
