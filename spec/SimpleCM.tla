------------------------------ MODULE SimpleCM ------------------------------
(***************************************************************************)
(* contextlib.closing(thing) and contextlib.nullcontext(value): the two    *)
(* context managers of the library that are not built from a generator.    *)
(* (No listed property speaks about them; the spec covers them because the *)
(* quantifier of C17 -- "every public operation" -- and the ExitStack and  *)
(* scoped_iter models use them as building blocks.)                        *)
(*                                                                         *)
(* One manager object is used `uses` times in a row (both are reusable).   *)
(* Steps of one use, as in `async with m as v: <block>`:                   *)
(*   Enter    -- binds v: the thing / the value itself                     *)
(*   Block    -- the block ends normally or with an exception              *)
(*   Exit     -- closing awaits thing.aclose() exactly once, whatever the  *)
(*               block did; nullcontext does nothing                       *)
(*   Classify -- neither ever suppresses; an exception raised by aclose()  *)
(*               replaces the block's                                      *)
(* Lib = "stdlib" is contextlib.aclosing / contextlib.nullcontext.         *)
(***************************************************************************)
EXTENDS Naturals, Sequences, TLC, Json, CSV

CONSTANTS OutFile

Kinds == {"closing", "nullcontext"}
Outcomes == {"normal", "Exception", "BaseException", "GeneratorExit", "StopAsyncIteration"}
CloseBehs == {"none", "truthy", "raise"}     \* what thing.aclose() answers

VARIABLES kind, o, cb, uses,
          ccancel,  \* a cancellation is thrown in while thing.aclose() is suspended (last use; closing only)
          phase,    \* "enter" | "block" | "exit" | "classify" | "done"
          use,      \* index of the current use
          bound,    \* what `as` bound in each use: "thing" | "value"
          ncls,     \* calls of thing.aclose() so far
          results   \* what left each `async with`
vars == <<kind, o, cb, uses, ccancel, phase, use, bound, ncls, results>>

Init == /\ kind \in Kinds /\ o \in Outcomes /\ cb \in CloseBehs /\ uses \in 1..2
        /\ (kind = "nullcontext" => cb = "none")
        /\ ccancel \in BOOLEAN /\ (kind = "nullcontext" => ~ccancel)
        /\ phase = "enter" /\ use = 1 /\ bound = <<>> /\ ncls = 0 /\ results = <<>>

Enter == /\ phase = "enter" /\ phase' = "block"
         /\ bound' = Append(bound, IF kind = "closing" THEN "thing" ELSE "value")
         /\ UNCHANGED <<kind, o, cb, uses, ccancel, use, ncls, results>>

Block == /\ phase = "block" /\ phase' = "exit"
         /\ UNCHANGED <<kind, o, cb, uses, ccancel, use, bound, ncls, results>>

\* __aexit__: closing awaits aclose() -- once per use, with or without an exception
Exit == /\ phase = "exit" /\ phase' = "classify"
        /\ ncls' = IF kind = "closing" THEN ncls + 1 ELSE ncls
        /\ UNCHANGED <<kind, o, cb, uses, ccancel, use, bound, results>>

Classify ==
  /\ phase = "classify"
  /\ results' = Append(results,
        \* the cancellation reaches the awaitable inside aclose() and comes out unchanged -- at once
        IF ccancel /\ use = uses THEN "cancel"
        ELSE IF kind = "closing" /\ cb = "raise" THEN "new:CloseError"
        ELSE IF o = "normal" THEN "ok" ELSE "same")
  /\ IF use < uses THEN phase' = "enter" /\ use' = use + 1 ELSE phase' = "done" /\ use' = use
  /\ UNCHANGED <<kind, o, cb, uses, ccancel, bound, ncls>>

Next == Enter \/ Block \/ Exit \/ Classify
Spec == Init /\ [][Next]_vars

---------------------------------------------------------------------------
ClosedOncePerUse == phase = "done" => ncls = (IF kind = "closing" THEN uses ELSE 0)
NeverSuppresses == \A i \in 1..Len(results) : o # "normal" => results[i] # "ok"
CancelComesOut == (phase = "done" /\ ccancel) => results[Len(results)] = "cancel"

Emit == (phase = "done" /\ OutFile # "") =>
   CSVWrite("%1$s", <<ToJson([kind |-> kind, o |-> o, cb |-> cb, uses |-> uses, ccancel |-> ccancel, bound |-> bound,
                              ncls |-> ncls, results |-> results])>>, OutFile)
=============================================================================
