--------------------------- MODULE DecoratorTrace ---------------------------
(* code -> spec for Decorator.tla: random schedules of MORE overlapping decorated *)
(* calls than the exhaustively explored ones (5..7) are recorded from the real     *)
(* library and must be behaviours of the specification: every recorded step is the *)
(* corresponding action and the projected state of the real system afterwards      *)
(* (where each call is, how its body ended, what it delivered, which generator      *)
(* serves it, enter/exit counts) equals the model's.                               *)
EXTENDS Decorator, TLCExt, IOUtils

Traces == JsonDeserialize(IOEnv.TRACE_FILE)
NT == Len(Traces)
VARIABLES tid, l
tvars == <<vars, tid, l>>
Reg(t) == t + 10
Ev == Traces[tid].ev
E == Ev[l + 1]

TInit == Init /\ tid \in 1..NT /\ l = 0 /\ TLCSet(Reg(tid), 0)
Observed == /\ \A c \in Call : /\ pc'[c] = E.pc[c] /\ how'[c] = E.how[c] /\ res'[c] = E.res[c]
                               /\ gen'[c] = E.gen[c] /\ entered'[c] = E.en[c] /\ exited'[c] = E.ex[c]
Consume == l' = l + 1 /\ tid' = tid /\ TLCSet(Reg(tid), l + 1)
Is(op) == l < Len(Ev) /\ E.a = op

TStep == \/ Is("start") /\ Start(E.c)
         \/ Is("entered") /\ EnterDone(E.c)
         \/ Is("bodyend") /\ BodyEnd(E.c, E.arg)
         \/ Is("exited") /\ ExitDone(E.c)
         \/ Is("cancel") /\ Cancel(E.c)
TNext == TStep /\ Observed /\ Consume
Spec2 == TInit /\ [][TNext]_tvars

Rejected == {t \in 1..NT : TLCGet(Reg(t)) < Len(Traces[t].ev)}
Accepted == /\ PrintT(<<"VALIDATED", NT>>)
            /\ \A t \in Rejected : PrintT(<<"REJECTED", t, TLCGet(Reg(t))>>)
=============================================================================
