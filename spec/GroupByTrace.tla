---------------------------- MODULE GroupByTrace ----------------------------
(* Trace validation for GroupBy.tla: recorded histories of the real         *)
(* asyncstdlib.groupby on inputs longer than the exhaustively explored ones *)
(* must be behaviours of the specification, operation by operation: same   *)
(* result (group key / item / stop) and same number of pulls and           *)
(* end-of-source detections afterwards.                                    *)
EXTENDS GroupBy, TLCExt, IOUtils

Traces == JsonDeserialize(IOEnv.TRACE_FILE)
NT == Len(Traces)
VARIABLES tid, l
tvars == <<vars, tid, l>>
Reg(t) == t + 10
Ev == Traces[tid].ev
E == Ev[l + 1]

TInit == /\ tid \in 1..NT /\ l = 0 /\ TLCSet(Reg(tid), 0)
         /\ data = Traces[tid].cfg.data
         /\ pos = 0 /\ stops = 0 /\ curIdx = 0 /\ curHas = FALSE /\ tgt = 0 /\ live = 0 /\ ngroups = 0
         /\ gkey = [g \in 1..MaxGroups |-> 0]
         /\ last = <<"init", 0, "none", 0, 0>>

Observed == /\ last'[3] = E.kind
            /\ (E.kind = "group" => last'[4] = E.key)
            /\ (E.kind = "item" => last'[4] = E.key /\ last'[5] = E.idx)
            /\ pos' = E.pos /\ stops' = E.st
Consume == l' = l + 1 /\ tid' = tid /\ TLCSet(Reg(tid), l + 1)

TGB == l < Len(Ev) /\ E.op = "gb" /\ AdvanceGB /\ Observed /\ Consume
TGrp == l < Len(Ev) /\ E.op = "grp" /\ AdvanceGroup(E.g) /\ Observed /\ Consume
TClose == l < Len(Ev) /\ E.op = "close" /\ CloseGroup(E.g) /\ Observed /\ Consume
TNext == TGB \/ TGrp \/ TClose
Spec2 == TInit /\ [][TNext]_tvars

Rejected == {t \in 1..NT : TLCGet(Reg(t)) < Len(Traces[t].ev)}
Accepted == /\ PrintT(<<"VALIDATED", NT>>)
            /\ \A t \in Rejected : PrintT(<<"REJECTED", t, TLCGet(Reg(t))>>)
=============================================================================
