------------------------------- MODULE CtxMgr -------------------------------
(***************************************************************************)
(* contextmanager(async generator function) (C13).  A *program* is an      *)
(* async generator assembled from three parts                              *)
(*     pre  : raise | raisert | noyield | yield                             *)
(*     h    : what the generator does with an exception thrown in at the   *)
(*            yield (10 handlers)                                          *)
(*     post : what follows the yield (after a normal resume, or after a    *)
(*            handler that swallowed): stop | yield | raise | raisesai     *)
(* (13 handlers) crossed with the way the with-block ends (8 outcomes).  The machine has *)
(* the steps of `async with`: Enter (generator to its first yield),        *)
(* Block (the body ends), Exit (the generator is resumed, thrown into or   *)
(* closed -- exactly once -- and answers), Classify (__aexit__ decides).   *)
(*                                                                         *)
(* Lib = "stdlib" is contextlib.asynccontextmanager (the twin that keeps   *)
(* this table honest); Lib = "asyncstdlib" differs in exactly one rule: a  *)
(* GeneratorExit leaving the block closes the generator (agen.aclose())    *)
(* instead of throwing into it  [contextlib.py:126-168].                   *)
(***************************************************************************)
EXTENDS Naturals, Sequences, TLC, Json, CSV

CONSTANTS OutFile

Pres == {"raise", "raisert", "noyield", "yield"}
Handlers == {"none", "finally", "swallow", "reraise", "raisenew", "raisenewfromnone", "raisenewfrom",
             "raisesametype", "return", "yieldagain", "raisesai", "raisertfrom", "raisert"}
Posts == {"stop", "yield", "raise", "raisesai"}
Outcomes == {"normal", "Exception", "BaseException", "StopIteration", "StopAsyncIteration",
             "RuntimeError", "GeneratorExit", "KeyboardInterrupt"}
Libs == {"stdlib", "asyncstdlib"}

VARIABLES prog, o, lib,
          phase,     \* "enter" | "block" | "exit" | "classify" | "done"
          entered,   \* outcome of __aenter__: "value" | "raise" | "rt-noyield"
          gen,       \* what the generator answered in the exit step
          nresume,   \* how often the generator was resumed/thrown into/closed after entering
          result,    \* what leaves the `async with` statement
          second     \* what a second `async with` on the same manager OBJECT gives: "-" (not tried) | "refused"
vars == <<prog, o, lib, phase, entered, gen, nresume, result, second>>

Init == /\ prog \in [pre : Pres, h : Handlers, post : Posts]
        /\ o \in Outcomes /\ lib \in Libs
        /\ phase = "enter" /\ entered = "-" /\ gen = "-" /\ nresume = 0 /\ result = "-" /\ second = "-"

IsStop(x) == x \in {"StopIteration", "StopAsyncIteration"}

\* __aenter__: run the generator to its first yield  [contextlib.py:120-124]
Enter ==
  /\ phase = "enter"
  \* ("raisert": the generator raises a RuntimeError of its own while handling a StopAsyncIteration -- its own
  \*  exception, whatever its __context__ is, not a generator that "did not yield")
  /\ entered' = CASE prog.pre \in {"raise", "raisert"} -> "raise" [] prog.pre = "noyield" -> "rt-noyield" [] OTHER -> "value"
  /\ IF prog.pre = "yield" THEN phase' = "block" /\ result' = result
     ELSE /\ phase' = "done"
          /\ result' = CASE prog.pre = "raise" -> "new:PreError" [] prog.pre = "raisert" -> "new:PreRuntimeError" [] OTHER -> "rt-noyield"
  /\ UNCHANGED <<prog, o, lib, gen, nresume, second>>

Block == /\ phase = "block" /\ phase' = "exit" /\ UNCHANGED <<prog, o, lib, entered, gen, nresume, result, second>>

\* what follows the yield once the generator runs on normally
\* ("raisesai": the code after the yield lets a StopAsyncIteration escape -- converted like any other)
AfterYield == CASE prog.post = "stop" -> "returns" [] prog.post = "yield" -> "yields"
                [] prog.post = "raisesai" -> "conv-of-new" [] OTHER -> "new:PostError"

\* the generator's answer to the block's exception being thrown in at the yield.
\* PEP 479/525: a StopIteration/StopAsyncIteration leaving an async generator body is
\* converted into a RuntimeError whose __cause__ is that exception.
OnThrow ==
  CASE prog.h \in {"none", "finally", "reraise"} -> IF IsStop(o) THEN "conv-of-value" ELSE "same"
    [] prog.h = "swallow" -> AfterYield
    [] prog.h = "raisenew" -> "new:NewError"
    [] prog.h = "raisenewfromnone" -> "new:NewError"
    \* `raise NewError() from exc`: having the thrown exception as __cause__ makes no RuntimeError of it
    [] prog.h = "raisenewfrom" -> "new:NewError"
    [] prog.h = "raisesametype" -> IF IsStop(o) THEN "conv-of-new" ELSE "new:" \o o
    [] prog.h = "return" -> "returns"
    [] prog.h = "yieldagain" -> "yields"
    [] prog.h = "raisesai" -> "conv-of-new"
    \* `raise MyRuntimeError() from exc`: a RuntimeError whose __cause__ is the thrown exception;
    \* contextlib takes exactly that shape for the PEP 479 conversion when a Stop*Iteration was thrown
    \* a plain new RuntimeError (its __context__ is the thrown exception, its __cause__ is not)
    [] prog.h = "raisert" -> "new:RuntimeError"
    [] prog.h = "raisertfrom" -> IF IsStop(o) THEN "conv-of-value" ELSE "new:ChainedRuntimeError"

\* __aexit__ resumes, throws into or closes the generator -- exactly once
Exit ==
  /\ phase = "exit" /\ phase' = "classify" /\ nresume' = nresume + 1
  /\ gen' = IF o = "normal" THEN AfterYield ELSE OnThrow
  /\ UNCHANGED <<prog, o, lib, entered, result, second>>

\* the decision of __aexit__  [contextlib.py:126-168]; labels of `result`:
\*   ok | suppressed | same | rt-nostop | rt-ignored (ignored GeneratorExit) |
\*   rt-conv (a converted Stop*Iteration that is not the block's) | new:<Type>
Classify ==
  /\ phase = "classify" /\ phase' = "done"
  /\ result' =
       IF o = "normal"
       THEN CASE gen = "returns" -> "ok" [] gen = "yields" -> "rt-nostop" [] gen = "conv-of-new" -> "rt-conv" [] OTHER -> gen
       ELSE IF o = "GeneratorExit" /\ lib = "asyncstdlib"
       THEN \* the generator is closed: finishing, returning or raising GeneratorExit itself
            \* lets the same GeneratorExit propagate; yielding is an error; any other
            \* exception raised by the generator replaces it
            CASE gen \in {"same", "returns", "new:GeneratorExit"} -> "same"
              [] gen = "yields" -> "rt-ignored"
              [] OTHER -> (IF gen = "conv-of-new" THEN "rt-conv" ELSE gen)
       ELSE CASE gen = "same" -> "same"
              [] gen = "conv-of-value" -> "same"          \* un-wrapped again: the block's own exception
              [] gen = "returns" -> "suppressed"
              [] gen = "yields" -> "rt-nostop"
              [] gen = "conv-of-new" -> "rt-conv"
              [] OTHER -> gen                               \* a new exception replaces the block's
  /\ UNCHANGED <<prog, o, lib, entered, gen, nresume, second>>

\* A generator-based manager is good for ONE with-statement: the object holds one generator, which has been used
\* up -- however the first use went.  Entering it again is refused (both libraries raise; which exception is their
\* own business), the block does not run and the generator function is not called a second time.
\* (A generator that did NOT stop -- it answered the exit step with another yield -- is still alive; what a second use does
\*  with it is outside anything C13 says: contextlib closes such a generator, asyncstdlib leaves it.  Not modelled.)
UsedUp == entered # "value" \/ gen # "yields"
Reenter ==
  /\ phase = "done" /\ second = "-" /\ UsedUp
  /\ second' = "refused"
  /\ UNCHANGED <<prog, o, lib, phase, entered, gen, nresume, result>>

Next == Enter \/ Block \/ Exit \/ Classify \/ Reenter
Spec == Init /\ [][Next]_vars

---------------------------------------------------------------------------
\* the generator is resumed or thrown into exactly once after a successful enter
ResumedOnce == phase = "done" => nresume = (IF entered = "value" THEN 1 ELSE 0)
\* StopIteration / StopAsyncIteration / RuntimeError raised in the block are never
\* misattributed: if the generator lets the block's exception pass, that same object leaves
NotMisattributed ==
  (phase = "done" /\ entered = "value" /\ o # "normal" /\ prog.h \in {"none", "finally", "reraise"}) => result = "same"

\* the second use never drives the generator: the count of the first use stands
SingleUse == second = "refused" => nresume = (IF entered = "value" THEN 1 ELSE 0)

Emit == (phase = "done" /\ (second = "refused" \/ ~UsedUp) /\ OutFile # "") =>
   CSVWrite("%1$s", <<ToJson([prog |-> prog, o |-> o, lib |-> lib, entered |-> entered, gen |-> gen,
                              nresume |-> nresume, result |-> result, second |-> second])>>, OutFile)
=============================================================================
