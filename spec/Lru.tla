-------------------------------- MODULE Lru --------------------------------
(***************************************************************************)
(* asyncstdlib.functools.lru_cache, sequential use (C10): a cache is an    *)
(* LRU-ordered sequence of *key classes* plus hit/miss counters.           *)
(*                                                                         *)
(* KeyOf transcribes the key construction shared by functools._make_key    *)
(* and CallKey.from_call (_lrucache.py:287-318): positional values, a      *)
(* marker and the (name, value) pairs of keyword arguments in call order,  *)
(* the argument types appended when `typed`, and the fast path that uses a *)
(* single positional int/str argument itself as the key.  Values compare   *)
(* as Python does: 1 == 1.0 == True, a str only equals the same str,       *)
(* tuples compare element-wise (their element types are never part of the *)
(* key).                                                                   *)
(*                                                                         *)
(* Actions (one per public operation, each a linearization point because   *)
(* use is sequential): Call(p) hit | miss+store(+evict) | failing call,    *)
(* Clear, Discard(p).  cache_info()/cache_parameters() are read after      *)
(* every step by the harness and compared with hits/misses/size here.      *)
(***************************************************************************)
EXTENDS Integers, Sequences, FiniteSets, TLC, Json, CSV

CONSTANTS MaxSize,     \* Unbounded, or an integer (<= 0 disables the cache)
          Typed,       \* BOOLEAN
          Pats,        \* which patterns of the table below are used (subset of 1..18)
          Insts,       \* {0}: plain function; {1,2}: bound to instances 1 and 2 (methods)
          MaxOps,      \* bound on the history length
          AllowFail,   \* the wrapped function may raise
          EdgeFile

Unbounded == -1

\* ---- argument patterns ------------------------------------------------------
\* a value is [t |-> type name, v |-> what == compares]; a tuple's v is a sequence
\* of the v's of its elements
I(n) == [t |-> "int", v |-> <<"num", n>>]
Fl(n) == [t |-> "float", v |-> <<"num", n>>]
B(n) == [t |-> "bool", v |-> <<"num", n>>]
S(x) == [t |-> "str", v |-> <<"str", x>>]
NoneV == [t |-> "NoneType", v |-> <<"none", 0>>]
Tup(a, b) == [t |-> "tuple", v |-> <<"tuple", a.v, b.v>>]
Pat(args, kw) == [args |-> args, kw |-> kw]
KW(n, x) == [n |-> n, x |-> x]

Patterns == <<
  Pat(<<I(1)>>, <<>>),                       \*  1  f(1)
  Pat(<<Fl(1)>>, <<>>),                      \*  2  f(1.0)
  Pat(<<B(1)>>, <<>>),                       \*  3  f(True)
  Pat(<<S("1")>>, <<>>),                     \*  4  f("1")
  Pat(<<I(1), I(2)>>, <<>>),                 \*  5  f(1, 2)
  Pat(<<Fl(1), Fl(2)>>, <<>>),               \*  6  f(1.0, 2.0)
  Pat(<<Tup(I(1), I(2))>>, <<>>),            \*  7  f((1, 2))
  Pat(<<Tup(Fl(1), Fl(2))>>, <<>>),          \*  8  f((1.0, 2.0))
  Pat(<<NoneV>>, <<>>),                      \*  9  f(None)
  Pat(<<>>, <<KW("a", I(1)), KW("b", I(2))>>),   \* 10  f(a=1, b=2)
  Pat(<<>>, <<KW("b", I(2)), KW("a", I(1))>>),   \* 11  f(b=2, a=1)
  Pat(<<I(1)>>, <<KW("b", I(2))>>),          \* 12  f(1, b=2)
  Pat(<<>>, <<>>),                           \* 13  f()
  Pat(<<I(2)>>, <<>>),                       \* 14  f(2)
  Pat(<<I(3)>>, <<>>),                       \* 15  f(3)
  Pat(<<>>, <<KW("a", Fl(1)), KW("b", I(2))>>),  \* 16  f(a=1.0, b=2)
  Pat(<<[t |-> "list", v |-> <<"list", 1>>]>>, <<>>),  \* 17  f([1]): an argument that cannot be hashed
  Pat(<<Tup(S("a"), I(1)), Tup(S("b"), I(2))>>, <<>>)   \* 18  f(("a", 1), ("b", 2)): positional values that spell the keyword items of 10
>>

\* an unhashable argument makes the key construction fail with TypeError -- before anything is counted,
\* and only if a key is needed at all (a disabled cache never builds one)
Hashable(p) == p # 17

\* beyond the table: pattern p > 18 is f(p), one more distinct int key each (caches larger than the table)
PatOf(p) == IF p \in 1..Len(Patterns) THEN Patterns[p] ELSE Pat(<<I(p)>>, <<>>)

\* calling through instance i > 0 prepends the instance to the positional arguments
\* (LRUAsyncBoundCallable.__call__, _lrucache.py:155-156)
Obj(i) == [t |-> "obj", v |-> <<"obj", i>>]
ArgsOf(p, i) == IF i = 0 THEN PatOf(p).args ELSE <<Obj(i)>> \o PatOf(p).args
Vals(p, n) == [i \in 1..Len(ArgsOf(p, n)) |-> ArgsOf(p, n)[i].v]
Types(p, n) == [i \in 1..Len(ArgsOf(p, n)) |-> <<"type", ArgsOf(p, n)[i].t>>]
KwItems(p) == [i \in 1..Len(PatOf(p).kw) |-> <<"kw", PatOf(p).kw[i].n, PatOf(p).kw[i].x.v>>]
KwTypes(p) == [i \in 1..Len(PatOf(p).kw) |-> <<"type", PatOf(p).kw[i].x.t>>]

\* the cache key of call pattern p  [_lrucache.py:309-318]
KeyOf(p, n) ==
  LET kw == PatOf(p).kw
      base == IF kw = <<>> THEN Vals(p, n) ELSE Vals(p, n) \o <<<<"kwmark">>>> \o KwItems(p) IN
  IF Typed THEN <<"seq", base \o (IF kw = <<>> THEN Types(p, n) ELSE Types(p, n) \o KwTypes(p))>>
  ELSE IF Len(base) = 1 /\ kw = <<>> /\ ArgsOf(p, n)[1].t \in {"int", "str"}
       THEN <<"fast", base[1]>>                 \* the argument itself is the key
       ELSE <<"seq", base>>

VARIABLES order,   \* keys from least to most recently used
          hits, misses,
          nops,    \* operations so far (history bound only)
          last     \* label of the last step (hidden by View)
vars == <<order, hits, misses, nops, last>>
View == <<order, hits, misses, nops>>

Enabled == MaxSize = Unbounded \/ MaxSize > 0
Cap == IF MaxSize = Unbounded THEN 1000 ELSE IF MaxSize < 0 THEN 0 ELSE MaxSize

Init == order = <<>> /\ hits = 0 /\ misses = 0 /\ nops = 0 /\ last = <<"init", 0, 0>>

Without(s, k) == SelectSeq(s, LAMBDA x : x # k)
InStore(k) == \E i \in 1..Len(order) : order[i] = k

\* await f(p): a hit refreshes recency; a miss invokes the function, then stores the
\* result, evicting the least recently used entry when full  [_lrucache.py:427-451]
Call(p, n) ==
  LET k == KeyOf(p, n) IN
  /\ Hashable(p) \/ ~Enabled
  /\ nops < MaxOps /\ nops' = nops + 1
  /\ IF Enabled /\ InStore(k)
     THEN /\ hits' = hits + 1
          /\ order' = Append(Without(order, k), k)
          /\ last' = <<"hit", p, n>>
          /\ UNCHANGED misses
     ELSE /\ misses' = misses + 1
          /\ order' = IF ~Enabled THEN <<>>
                      ELSE IF Len(order) >= Cap THEN Append(Tail(order), k)
                      ELSE Append(order, k)
          /\ last' = <<"miss", p, n>>
          /\ UNCHANGED hits

\* the wrapped function raises: counted as a miss, nothing stored
CallFail(p, n) ==
  /\ Hashable(p) \/ ~Enabled
  /\ AllowFail /\ nops < MaxOps /\ nops' = nops + 1
  /\ ~(Enabled /\ InStore(KeyOf(p, n)))      \* a cached pattern does not invoke the function
  /\ misses' = misses + 1
  /\ last' = <<"fail", p, n>>
  /\ UNCHANGED <<order, hits>>

\* f([1]) / cache_discard([1]) on an enabled cache: TypeError, nothing changes
Unhashable(p, n) ==
  /\ ~Hashable(p) /\ Enabled
  /\ nops < MaxOps /\ nops' = nops + 1
  /\ last' = <<"typeerror", p, n>>
  /\ UNCHANGED <<order, hits, misses>>

Clear ==
  /\ nops < MaxOps /\ nops' = nops + 1
  /\ order' = <<>> /\ hits' = 0 /\ misses' = 0
  /\ last' = <<"clear", 0, 0>>

\* cache_discard(p) removes exactly the entry of that call pattern
Discard(p, n) ==
  /\ Hashable(p)
  /\ nops < MaxOps /\ nops' = nops + 1
  /\ order' = Without(order, KeyOf(p, n))
  /\ last' = <<"discard", p, n>>
  /\ UNCHANGED <<hits, misses>>

Next == (\E p \in Pats, n \in Insts : Call(p, n) \/ CallFail(p, n) \/ Discard(p, n) \/ Unhashable(p, n)) \/ Clear
Spec == Init /\ [][Next]_vars

\* ---- invariants --------------------------------------------------------------
SizeBound == Len(order) <= Cap
NoDup == \A i, j \in 1..Len(order) : i # j => order[i] # order[j]
Disabled == ~Enabled => (order = <<>> /\ hits = 0)
\* the equivalences the standard library documents, as facts about KeyOf
KeyFacts == 0 \notin Insts \/
  /\ ~Typed => (KeyOf(2, 0) = KeyOf(3, 0) /\ KeyOf(1, 0) # KeyOf(2, 0))    \* 1.0 ~ True, int 1 apart
  /\ Typed => (KeyOf(1, 0) # KeyOf(2, 0) /\ KeyOf(2, 0) # KeyOf(3, 0) /\ KeyOf(1, 0) # KeyOf(3, 0))
  /\ ~Typed => KeyOf(5, 0) = KeyOf(6, 0)
  /\ Typed => KeyOf(5, 0) # KeyOf(6, 0)
  /\ KeyOf(7, 0) = KeyOf(8, 0)            \* types inside a tuple never matter
  /\ KeyOf(10, 0) # KeyOf(11, 0)         \* keyword order matters
  /\ KeyOf(12, 0) # KeyOf(5, 0)          \* positional vs keyword

EmitEdge == EdgeFile = "" \/
  CSVWrite("%1$s", <<ToJson([f |-> [o |-> order, h |-> hits, m |-> misses, n |-> nops],
                             a |-> last',
                             t |-> [o |-> order', h |-> hits', m |-> misses', n |-> nops']])>>, EdgeFile)
=============================================================================
