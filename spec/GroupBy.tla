------------------------------ MODULE GroupBy ------------------------------
(***************************************************************************)
(* itertools.groupby as a machine over shared state (C16; groupby clauses  *)
(* of C05/C06/C04), transcribed from CPython's groupby_next/_grouper_next  *)
(* and mirrored by asyncstdlib's GroupBy/_Grouper/_GroupByState            *)
(* (itertools.py:560-696).  The consumer holds the groupby iterator and    *)
(* every group it ever returned, and may advance any of them in any order. *)
(*                                                                         *)
(*   AdvanceGB        next(groupby): invalidate the live group, skip the   *)
(*                    rest of the current run, return (key, new group)     *)
(*   AdvanceGroup(g)  next(group g): stale -> stop without touching the    *)
(*                    source; else look ahead one item if needed; item of  *)
(*                    another key -> stop (item kept); else hand it out    *)
(*   Step             (inside both) pull one item and compute its key      *)
(*   CloseGroup(g)    aclose() of a *stale* group g (asyncstdlib only; a   *)
(*                    sync group has no close): it changes nothing -- in   *)
(*                    particular it does not disturb the group that is     *)
(*                    live now.  (What closing the live group does is not  *)
(*                    part of C16 and is left out.)                        *)
(*                                                                         *)
(* The data is fixed by Init; pulls (including end-of-source detections)   *)
(* and key calls are counted, so laziness is part of the state.            *)
(***************************************************************************)
EXTENDS Integers, Sequences, FiniteSets, TLC, Json, CSV

CONSTANTS MaxLen, Keys, MaxStops, EdgeFile

SeqsUpTo(S, n) == UNION {[1..m -> S] : m \in 0..n}

VARIABLES data,     \* keys of the items, fixed
          pos,      \* items pulled from the source
          stops,    \* end-of-source detections so far
          curIdx,   \* index of the look-ahead item (0: nothing pulled yet)
          curHas,   \* the look-ahead item has not been handed out yet
          tgt,      \* key of the group returned last (0: none yet)
          live,     \* id of the group that may still yield (0: none)
          ngroups,  \* groups created so far
          gkey,     \* gkey[g]: key of group g
          last      \* label and result of the last operation (hidden by View)
vars == <<data, pos, stops, curIdx, curHas, tgt, live, ngroups, gkey, last>>
View == <<data, pos, stops, curIdx, curHas, tgt, live, ngroups, gkey>>

MaxGroups == MaxLen
Init == /\ data \in SeqsUpTo(Keys, MaxLen)
        /\ pos = 0 /\ stops = 0 /\ curIdx = 0 /\ curHas = FALSE /\ tgt = 0 /\ live = 0 /\ ngroups = 0
        /\ gkey = [g \in 1..MaxGroups |-> 0]
        /\ last = <<"init", 0, "none", 0, 0>>

CurKey(ci) == IF ci = 0 THEN 0 ELSE data[ci]
AtEnd(p) == p >= Len(data)

\* skip items of key t starting from state (p, ci): returns [p, ci, end] where end means the
\* source ran out while skipping (each step pulls one item and calls key once)
RECURSIVE Skip(_, _, _)
Skip(p, ci, t) ==
  IF ci # 0 /\ (t = 0 \/ data[ci] # t) THEN [p |-> p, ci |-> ci, end |-> FALSE]
  ELSE IF AtEnd(p) THEN [p |-> p, ci |-> ci, end |-> TRUE]
  ELSE Skip(p + 1, p + 1, t)

\* label: <<op, group, result kind, key, item index>>
AdvanceGB ==
  /\ stops < MaxStops
  /\ LET \* groupby_next: step while there is no look-ahead key or it equals the target key
         r == Skip(pos, curIdx, tgt) IN
     IF r.end
     THEN /\ pos' = r.p /\ stops' = stops + 1
          /\ curIdx' = r.ci /\ curHas' = (IF r.ci # curIdx THEN TRUE ELSE curHas)
          /\ live' = 0
          /\ last' = <<"gb", 0, "stop", 0, 0>>
          /\ UNCHANGED <<tgt, ngroups, gkey>>
     ELSE /\ pos' = r.p /\ curIdx' = r.ci
          /\ curHas' = (IF r.ci # curIdx THEN TRUE ELSE curHas)
          /\ tgt' = data[r.ci]
          /\ ngroups' = ngroups + 1 /\ live' = ngroups + 1
          /\ gkey' = [gkey EXCEPT ![ngroups + 1] = data[r.ci]]
          /\ last' = <<"gb", ngroups + 1, "group", data[r.ci], 0>>
          /\ UNCHANGED stops
  /\ UNCHANGED data

AdvanceGroup(g) ==
  /\ g \in 1..ngroups /\ stops < MaxStops
  /\ IF live # g
     THEN /\ last' = <<"grp", g, "stop", 0, 0>>        \* stale: nothing is pulled
          /\ UNCHANGED <<pos, stops, curIdx, curHas, tgt, live, ngroups, gkey>>
     ELSE IF ~curHas /\ AtEnd(pos)
     THEN /\ stops' = stops + 1                          \* look-ahead finds the end
          /\ last' = <<"grp", g, "stop", 0, 0>>
          /\ UNCHANGED <<pos, curIdx, curHas, tgt, live, ngroups, gkey>>
     ELSE LET p2 == IF curHas THEN pos ELSE pos + 1
              ci == IF curHas THEN curIdx ELSE pos + 1 IN
          /\ pos' = p2 /\ curIdx' = ci
          /\ IF data[ci] # gkey[g]
             THEN /\ curHas' = TRUE                        \* first item of the next run: kept
                  /\ last' = <<"grp", g, "stop", 0, 0>>
             ELSE /\ curHas' = FALSE
                  /\ last' = <<"grp", g, "item", data[ci], ci>>
          /\ UNCHANGED <<stops, tgt, live, ngroups, gkey>>
  /\ UNCHANGED data

CloseGroup(g) ==
  /\ g \in 1..ngroups /\ stops < MaxStops
  /\ live # g
  /\ live' = live
  /\ last' = <<"close", g, "closed", 0, 0>>
  /\ UNCHANGED <<data, pos, stops, curIdx, curHas, tgt, ngroups, gkey>>

Next == AdvanceGB \/ \E g \in 1..MaxGroups : AdvanceGroup(g) \/ CloseGroup(g)
Spec == Init /\ [][Next]_vars

---------------------------------------------------------------------------
\* groups are maximal runs of equal keys: the g-th group's key is the key of the g-th run
\* that was reached, and every group id maps to a run start
RunStarts == {i \in 1..Len(data) : i = 1 \/ data[i] # data[i - 1]}
MaximalRuns ==
  \A g \in 1..ngroups : gkey[g] # 0
\* a handed-out item belongs to the live group's run: equal key, contiguous with its start
ItemInRun ==
  (last[1] = "grp" /\ last[3] = "item") =>
     /\ data[last[5]] = gkey[last[2]]
     /\ last[2] = live
\* a new group always starts at a run start that lies after everything handed out before
GroupAtRunStart ==
  (last[1] = "gb" /\ last[3] = "group") => curIdx \in RunStarts /\ curHas
\* never more pulled than needed: the source is at most one item ahead of what was used
Lazy == pos = curIdx /\ pos <= Len(data)

EmitEdge == EdgeFile = "" \/
  CSVWrite("%1$s", <<ToJson([f |-> [d |-> data, pos |-> pos, st |-> stops, ci |-> curIdx, ch |-> curHas, tgt |-> tgt, live |-> live, ng |-> ngroups, gk |-> gkey],
                             a |-> last',
                             t |-> [d |-> data, pos |-> pos', st |-> stops', ci |-> curIdx', ch |-> curHas', tgt |-> tgt', live |-> live', ng |-> ngroups', gk |-> gkey']])>>, EdgeFile)
=============================================================================
