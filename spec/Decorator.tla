------------------------------ MODULE Decorator ------------------------------
(***************************************************************************)
(* Context managers used as decorators (C15): ContextDecorator.__call__    *)
(* wraps a coroutine function into                                         *)
(*       async with self._recreate_cm(): return await func(args)           *)
(* [contextlib.py:94-118].  A call is a little machine                      *)
(*   Start -> (enter suspends) EnterDone -> (body suspends) BodyEnd ->     *)
(*   (exit suspends) ExitDone,   with Cancel possible at every suspension. *)
(* N calls run concurrently under every interleaving, or one after the     *)
(* other.  GenBased managers (made by contextmanager) must give every call *)
(* its own generator; a class-based ContextDecorator is entered/exited     *)
(* once per call on the one shared instance.                               *)
(***************************************************************************)
EXTENDS Naturals, Sequences, FiniteSets, TLC, Json, CSV

CONSTANTS NCall, GenBased, Suppress, Sequential, AllowCancel, EdgeFile
Call == 1..NCall

VARIABLES pc,      \* "new" | "entering" | "inbody" | "exiting" | "done"
          how,     \* how the body ended: "-" | "ret" | "raise" | "cancel"
          res,     \* what the call delivered: "-" | "value" | "none" | "raise" | "cancel"
          gen,     \* generator instance serving the call (0 = none yet / class-based)
          ngen,    \* generator instances created
          entered, \* entered[c], exited[c]: counts of enter / exit for the call
          exited,
          last
vars == <<pc, how, res, gen, ngen, entered, exited, last>>
View == <<pc, how, res, gen, ngen, entered, exited>>

Init == /\ pc = [c \in Call |-> "new"] /\ how = [c \in Call |-> "-"] /\ res = [c \in Call |-> "-"]
        /\ gen = [c \in Call |-> 0] /\ ngen = 0
        /\ entered = [c \in Call |-> 0] /\ exited = [c \in Call |-> 0]
        /\ last = <<"init", 0, "-">>

MayRun(c) == ~Sequential \/ \A d \in Call : d < c => pc[d] = "done"

\* the call begins: a fresh context (a new generator for generator-based managers) is
\* created and its __aenter__ runs up to its suspension
Start(c) ==
  /\ pc[c] = "new" /\ MayRun(c)
  /\ pc' = [pc EXCEPT ![c] = "entering"]
  /\ ngen' = IF GenBased THEN ngen + 1 ELSE ngen
  /\ gen' = [gen EXCEPT ![c] = IF GenBased THEN ngen + 1 ELSE 0]
  /\ last' = <<"start", c, "-">>
  /\ UNCHANGED <<how, res, entered, exited>>

\* __aenter__ completes, the body starts and runs to its suspension
EnterDone(c) ==
  /\ pc[c] = "entering"
  /\ pc' = [pc EXCEPT ![c] = "inbody"]
  /\ entered' = [entered EXCEPT ![c] = @ + 1]
  /\ last' = <<"entered", c, "-">>
  /\ UNCHANGED <<how, res, gen, ngen, exited>>

\* the body returns or raises; __aexit__ starts with the body's exception (if any) and
\* runs to its suspension
BodyEnd(c, h) ==
  /\ pc[c] = "inbody"
  /\ pc' = [pc EXCEPT ![c] = "exiting"]
  /\ how' = [how EXCEPT ![c] = h]
  /\ last' = <<"bodyend", c, h>>
  /\ UNCHANGED <<res, gen, ngen, entered, exited>>

\* __aexit__ completes: the result or the body's exception (unless suppressed) comes out
ExitDone(c) ==
  /\ pc[c] = "exiting"
  /\ pc' = [pc EXCEPT ![c] = "done"]
  /\ exited' = [exited EXCEPT ![c] = @ + 1]
  /\ res' = [res EXCEPT ![c] = CASE how[c] = "ret" -> "value"
                                  [] Suppress -> "none"
                                  [] OTHER -> how[c]]
  /\ last' = <<"exited", c, how[c]>>
  /\ UNCHANGED <<how, gen, ngen, entered>>

\* cancellation at the suspension inside enter (nothing to exit), body (exit runs with it)
\* or exit (it replaces whatever was in flight)
Cancel(c) ==
  /\ AllowCancel /\ pc[c] \in {"entering", "inbody", "exiting"}
  /\ last' = <<"cancel", c, pc[c]>>
  /\ IF pc[c] = "inbody"
     THEN /\ pc' = [pc EXCEPT ![c] = "exiting"] /\ how' = [how EXCEPT ![c] = "cancel"]
          /\ UNCHANGED <<res, exited>>
     ELSE /\ pc' = [pc EXCEPT ![c] = "done"] /\ res' = [res EXCEPT ![c] = "cancel"]
          /\ exited' = IF pc[c] = "exiting" THEN [exited EXCEPT ![c] = @ + 1] ELSE exited
          /\ UNCHANGED how
  /\ UNCHANGED <<gen, ngen, entered>>

Next == \E c \in Call : Start(c) \/ EnterDone(c) \/ BodyEnd(c, "ret") \/ BodyEnd(c, "raise") \/ ExitDone(c) \/ Cancel(c)
Spec == Init /\ [][Next]_vars

\* every call gets its own generator, so calls never interfere
OwnGenerator == GenBased => \A c, d \in Call : (c # d /\ gen[c] # 0 /\ gen[d] # 0) => gen[c] # gen[d]
\* enter before body, exit after body, each once per call
Paired == \A c \in Call : /\ entered[c] <= 1 /\ exited[c] <= entered[c]
                          /\ (pc[c] \in {"inbody", "exiting"} => entered[c] = 1 /\ exited[c] = 0)
                          /\ (pc[c] = "done" /\ entered[c] = 1 => exited[c] = 1)
\* the result of a finished call is the function's, unless its exception was suppressed
Result == \A c \in Call : (pc[c] = "done" /\ how[c] = "ret" /\ res[c] # "cancel") => res[c] = "value"

EmitEdge == EdgeFile = "" \/
  CSVWrite("%1$s", <<ToJson([f |-> [pc |-> pc, how |-> how, res |-> res, gen |-> gen, ng |-> ngen, en |-> entered, ex |-> exited],
                             a |-> last',
                             t |-> [pc |-> pc', how |-> how', res |-> res', gen |-> gen', ng |-> ngen', en |-> entered', ex |-> exited']])>>, EdgeFile)
=============================================================================
