------------------------------ MODULE LruTrace ------------------------------
(***************************************************************************)
(* Trace validation for Lru.tla: recorded sequential histories of the real *)
(* asyncstdlib.lru_cache (longer than the exhaustively explored ones) are   *)
(* checked, operation by operation, to be behaviours of the specification: *)
(* each recorded operation must be an enabled Lru action whose successor   *)
(* state shows exactly the logged cache_info() and whose hit/miss nature   *)
(* matches whether the wrapped function was observed to run.               *)
(* TRACE_FILE: [ {cfg: ..., ev: [ {op, p, n, inv, h, m, s} ... ]} ... ] for one *)
(* (MaxSize, Typed) configuration.                                         *)
(***************************************************************************)
EXTENDS Lru, TLCExt, IOUtils

Traces == JsonDeserialize(IOEnv.TRACE_FILE)
NT == Len(Traces)
VARIABLES tid, l
tvars == <<vars, tid, l>>
Reg(t) == t + 10
Ev == Traces[tid].ev
E == Ev[l + 1]

TInit == Init /\ tid \in 1..NT /\ l = 0 /\ TLCSet(Reg(tid), 0)

Observed == hits' = E.h /\ misses' = E.m /\ Len(order') = E.s
Consume == l' = l + 1 /\ tid' = tid /\ TLCSet(Reg(tid), l + 1)

TCall == /\ l < Len(Ev) /\ E.op = "call"
         /\ \/ Call(E.p, E.n) /\ ~E.failed /\ (E.inv <=> last'[1] = "miss")
            \/ CallFail(E.p, E.n) /\ E.failed /\ E.inv
         /\ Observed /\ Consume
TClear == /\ l < Len(Ev) /\ E.op = "clear" /\ Clear /\ Observed /\ Consume
TDiscard == /\ l < Len(Ev) /\ E.op = "discard" /\ Discard(E.p, E.n) /\ Observed /\ Consume

TUnhashable == /\ l < Len(Ev) /\ E.op = "typeerror" /\ Unhashable(E.p, E.n) /\ ~E.inv /\ Observed /\ Consume

TNext == TCall \/ TClear \/ TDiscard \/ TUnhashable
Spec2 == TInit /\ [][TNext]_tvars

Rejected == {t \in 1..NT : TLCGet(Reg(t)) < Len(Traces[t].ev)}
Accepted == /\ PrintT(<<"VALIDATED", NT>>)
            /\ \A t \in Rejected : PrintT(<<"REJECTED", t, TLCGet(Reg(t))>>)
=============================================================================
