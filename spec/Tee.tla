-------------------------------- MODULE Tee --------------------------------
(***************************************************************************)
(* asyncstdlib.itertools.tee under cooperative scheduling (C09; C04/C18/C20 *)
(* for tee).  One action = one task running from a suspension point to the  *)
(* next, following tee_peer line by line (itertools.py:357-395):            *)
(*                                                                         *)
(*   Anext(c)  consumer of child c asks for the next item: buffer check,   *)
(*             lock acquisition (or wait), re-check under the lock, source *)
(*             pull up to its first suspension         [366-375]           *)
(*   Grant(c)  a waiting child obtains the free lock   [369-373]           *)
(*   Tick(c)   the source resumes child c's pull; the last tick appends    *)
(*             the item to all registered buffers, releases the lock and   *)
(*             yields buffer.popleft()                 [375-386]           *)
(*   Close(c)  aclose() of an idle or unstarted child  [387-395]           *)
(*   Cancel(c) an exception thrown into a suspended child (at the lock or  *)
(*             inside the source)                      [387-395]           *)
(*                                                                         *)
(* Named deviation of the code from what C04/C09 demand: closing a child   *)
(* that was never advanced does not run the generator's finally block, so  *)
(* its buffer stays registered (UnstartedCloseLeaks = TRUE is the code).   *)
(***************************************************************************)
EXTENDS Naturals, Sequences, FiniteSets, TLC, Json, CSV

CONSTANTS NChild,               \* number of children
          SrcLen,               \* items the source holds
          Susp,                 \* suspensions per source pull (also the exhausting one)
          UseLock,              \* a lock was passed to tee
          ExitSusp,             \* 1: the lock's __aexit__ suspends once after releasing (0: never)
          AllowCancel,          \* consumers may be cancelled
          AllowFail,            \* the source may raise (once) instead of delivering an item
          Closable,             \* the source has an aclose method
          AllowClose,           \* children may be closed early
          UnstartedCloseLeaks,  \* TRUE: the code as it is; FALSE: what the property demands
          HandleSweeps,         \* Tee.aclose() deregisters never-started children and closes the source
          EdgeFile              \* NDJSON file for transitions ("" = none)

Child == 1..NChild

VARIABLES cs,        \* "unstarted" | "idle" | "lockwait" | "insrc" | "exiting" | "exitstop" | "done" | "closed" | "cancelled"
          rem,       \* remaining source suspensions of a child inside the source
          buf,       \* per-child buffer (item indexes)
          reg,       \* buffer still registered in `peers`
          recv,      \* items received by the consumer of each child
          srcPos,    \* items fetched from the source so far
          srcBusy,   \* children currently inside source.__anext__
          srcClosed, \* number of aclose() calls on the source
          lock,      \* 0 or the child holding the lock
          nfail,     \* failures injected so far
          last       \* label of the last step (observation only, hidden by View)

vars == <<cs, rem, buf, reg, recv, srcPos, srcBusy, srcClosed, lock, nfail, last>>
View == <<cs, rem, buf, reg, recv, srcPos, srcBusy, srcClosed, lock, nfail>>

Init == /\ cs = [c \in Child |-> "unstarted"]
        /\ rem = [c \in Child |-> 0]
        /\ buf = [c \in Child |-> <<>>]
        /\ reg = [c \in Child |-> TRUE]
        /\ recv = [c \in Child |-> <<>>]
        /\ srcPos = 0 /\ srcBusy = {} /\ srcClosed = 0
        /\ lock = 0 /\ nfail = 0
        /\ last = <<"init", 0>>

\* the finally block: deregister c, close the source if c was the last peer
Finally(c, newcs, l2) ==
   /\ reg' = [reg EXCEPT ![c] = FALSE]
   /\ buf' = [buf EXCEPT ![c] = <<>>]
   /\ cs' = [cs EXCEPT ![c] = newcs]
   /\ lock' = l2
   /\ srcClosed' = IF Closable /\ (\A d \in Child \ {c} : ~reg[d]) THEN srcClosed + 1 ELSE srcClosed

\* the source hands an item to c: append to all registered buffers, release, pop own
FetchDone(c) ==
   LET item == srcPos + 1
       b2 == [d \in Child |-> IF reg[d] THEN Append(buf[d], item) ELSE buf[d]] IN
   /\ srcPos' = item
   /\ lock' = 0
   /\ srcBusy' = srcBusy \ {c}
   /\ IF UseLock /\ ExitSusp = 1
      THEN /\ buf' = b2 /\ cs' = [cs EXCEPT ![c] = "exiting"] /\ UNCHANGED recv   \* suspended in lock.__aexit__
      ELSE /\ buf' = [b2 EXCEPT ![c] = Tail(@)]
           /\ recv' = [recv EXCEPT ![c] = Append(@, Head(b2[c]))]
           /\ cs' = [cs EXCEPT ![c] = "idle"]
   /\ UNCHANGED <<reg, srcClosed, rem>>

\* holding the lock (or needing none): re-check the buffer, then go to the source
AfterLock(c) ==
   IF buf[c] # <<>> THEN        \* another peer produced an item while we waited: `continue`
      IF UseLock /\ ExitSusp = 1
      THEN /\ cs' = [cs EXCEPT ![c] = "exiting"] /\ lock' = 0
           /\ UNCHANGED <<rem, buf, reg, recv, srcPos, srcBusy, srcClosed>>
      ELSE /\ recv' = [recv EXCEPT ![c] = Append(@, Head(buf[c]))]
           /\ buf' = [buf EXCEPT ![c] = Tail(@)]
           /\ cs' = [cs EXCEPT ![c] = "idle"]
           /\ lock' = 0
           /\ UNCHANGED <<rem, reg, srcPos, srcBusy, srcClosed>>
   ELSE IF Susp = 0 /\ srcPos >= SrcLen THEN
      IF UseLock /\ ExitSusp = 1
      THEN /\ cs' = [cs EXCEPT ![c] = "exitstop"] /\ lock' = 0
           /\ UNCHANGED <<rem, buf, reg, recv, srcPos, srcBusy, srcClosed>>
      ELSE /\ Finally(c, "done", 0)
           /\ UNCHANGED <<rem, recv, srcPos, srcBusy>>
   ELSE IF Susp = 0 THEN FetchDone(c)
   ELSE /\ cs' = [cs EXCEPT ![c] = "insrc"]
        /\ rem' = [rem EXCEPT ![c] = Susp]
        /\ srcBusy' = srcBusy \cup {c}
        /\ lock' = IF UseLock THEN c ELSE 0
        /\ UNCHANGED <<buf, reg, recv, srcPos, srcClosed>>

Anext(c) ==
   /\ cs[c] \in {"unstarted", "idle"}
   /\ last' = <<"anext", c>>
   /\ IF buf[c] # <<>> THEN
         /\ recv' = [recv EXCEPT ![c] = Append(@, Head(buf[c]))]
         /\ buf' = [buf EXCEPT ![c] = Tail(@)]
         /\ cs' = [cs EXCEPT ![c] = "idle"]
         /\ UNCHANGED <<rem, reg, srcPos, srcBusy, srcClosed, lock>>
      ELSE IF UseLock /\ lock # 0 THEN
         /\ cs' = [cs EXCEPT ![c] = "lockwait"]
         /\ UNCHANGED <<rem, buf, reg, recv, srcPos, srcBusy, srcClosed, lock>>
      ELSE AfterLock(c)

Grant(c) ==
   /\ cs[c] = "lockwait" /\ lock = 0
   /\ last' = <<"grant", c>>
   /\ AfterLock(c)

Tick(c) ==
   /\ cs[c] = "insrc"
   /\ last' = <<"tick", c>>
   /\ IF rem[c] > 1 THEN /\ rem' = [rem EXCEPT ![c] = @ - 1]
                         /\ UNCHANGED <<cs, buf, reg, recv, srcPos, srcBusy, srcClosed, lock>>
      ELSE IF srcPos >= SrcLen THEN      \* the source reports its end
         IF UseLock /\ ExitSusp = 1
         THEN /\ cs' = [cs EXCEPT ![c] = "exitstop"] /\ lock' = 0
              /\ srcBusy' = srcBusy \ {c}
              /\ UNCHANGED <<rem, buf, reg, recv, srcPos, srcClosed>>
         ELSE /\ Finally(c, "done", IF lock = c THEN 0 ELSE lock)
              /\ srcBusy' = srcBusy \ {c}
              /\ UNCHANGED <<rem, recv, srcPos>>
      ELSE FetchDone(c)      \* sets lock' = 0: with a lock the holder is c, without nobody holds it

\* lock.__aexit__ resumes: leave `async with`, then yield from the buffer / finish
ExitStep(c) ==
   /\ cs[c] \in {"exiting", "exitstop", "exitcancel", "exitfail"}
   /\ last' = <<"exit", c>>
   /\ IF cs[c] = "exiting"
      THEN /\ recv' = [recv EXCEPT ![c] = Append(@, Head(buf[c]))]
           /\ buf' = [buf EXCEPT ![c] = Tail(@)]
           /\ cs' = [cs EXCEPT ![c] = "idle"]
           /\ UNCHANGED <<rem, reg, srcPos, srcBusy, srcClosed, lock>>
      ELSE /\ Finally(c, CASE cs[c] = "exitstop" -> "done" [] cs[c] = "exitfail" -> "failed" [] OTHER -> "cancelled", lock)
           /\ UNCHANGED <<rem, recv, srcPos, srcBusy>>

Close(c) ==
   /\ AllowClose
   /\ cs[c] \in {"unstarted", "idle"}
   /\ last' = <<"close", c>>
   /\ IF cs[c] = "unstarted" /\ UnstartedCloseLeaks
      THEN /\ cs' = [cs EXCEPT ![c] = "closed"]      \* the finally block never runs
           /\ UNCHANGED <<buf, reg, lock, srcClosed>>
      ELSE Finally(c, "closed", lock)
   /\ UNCHANGED <<rem, recv, srcPos, srcBusy>>

Cancel(c) ==
   /\ AllowCancel
   /\ cs[c] \in {"lockwait", "insrc", "exiting", "exitstop", "exitfail"}
   /\ last' = <<"cancel", c>>
   /\ IF cs[c] = "insrc" /\ UseLock /\ ExitSusp = 1
      THEN \* the exception leaves `async with lock` through __aexit__, which suspends
           /\ cs' = [cs EXCEPT ![c] = "exitcancel"]
           /\ lock' = IF lock = c THEN 0 ELSE lock
           /\ UNCHANGED <<buf, reg, srcClosed>>
      ELSE Finally(c, "cancelled", IF lock = c THEN 0 ELSE lock)
   /\ srcBusy' = srcBusy \ {c}
   /\ UNCHANGED <<rem, recv, srcPos>>

\* Tee.aclose() / leaving `async with tee`: every child is closed in index order
\* [itertools.py:481-483]; a child whose finally block runs deregisters itself and the
\* last registered one closes the source; never-started children (the named deviation)
\* stay registered unless the handle sweeps them.
CloseAll ==
   /\ AllowClose
   /\ \A c \in Child : cs[c] \notin {"lockwait", "insrc", "exiting", "exitstop", "exitcancel", "exitfail"}
   /\ \E c \in Child : cs[c] \in {"unstarted", "idle"}
   /\ last' = <<"closeall", 0>>
   /\ LET runs(c) == cs[c] = "idle" \/ (cs[c] = "unstarted" /\ ~UnstartedCloseLeaks)
          regA == [c \in Child |-> reg[c] /\ ~runs(c)]
          byChild == (\E c \in Child : reg[c] /\ runs(c)) /\ (\A c \in Child : ~regA[c])
          sweep == HandleSweeps /\ (\E c \in Child : regA[c]) IN
      /\ cs' = [c \in Child |-> IF cs[c] \in {"unstarted", "idle"} THEN "closed" ELSE cs[c]]
      /\ reg' = IF sweep THEN [c \in Child |-> FALSE] ELSE regA
      /\ buf' = [c \in Child |-> IF sweep \/ ~regA[c] THEN <<>> ELSE buf[c]]
      /\ srcClosed' = srcClosed + (IF Closable /\ (byChild \/ sweep) THEN 1 ELSE 0)
   /\ UNCHANGED <<rem, recv, srcPos, srcBusy, lock>>

\* Tee.aclose() while some child is inside a call (being advanced elsewhere): the children are closed in
\* index order up to the first busy one, whose aclose() Python refuses (RuntimeError: asynchronous generator
\* is already running); the handle neither waits for it nor touches the later children or the source.
Busy(c) == cs[c] \in {"lockwait", "insrc", "exiting", "exitstop", "exitcancel", "exitfail"}
CloseAllBusy ==
   /\ AllowClose
   /\ \E c \in Child : Busy(c)
   /\ LET b == CHOOSE c \in Child : Busy(c) /\ \A d \in Child : d < c => ~Busy(d)
          closes(c) == c < b /\ cs[c] \in {"unstarted", "idle"}
          runs(c) == c < b /\ (cs[c] = "idle" \/ (cs[c] = "unstarted" /\ ~UnstartedCloseLeaks)) IN
      /\ last' = <<"closeallbusy", b>>
      /\ cs' = [c \in Child |-> IF closes(c) THEN "closed" ELSE cs[c]]
      /\ reg' = [c \in Child |-> reg[c] /\ ~runs(c)]
      /\ buf' = [c \in Child |-> IF runs(c) THEN <<>> ELSE buf[c]]
   /\ UNCHANGED <<rem, recv, srcPos, srcBusy, srcClosed, lock>>      \* the busy child is still a peer: nobody was the last one

\* the source raises instead of delivering (at the last tick of a pull): the exception
\* leaves `async with lock` and the finally block like a cancellation does, and reaches
\* the consumer of child c; the class-based source itself survives
Fail(c) ==
   /\ AllowFail /\ nfail = 0
   /\ cs[c] = "insrc" /\ rem[c] = 1
   /\ last' = <<"fail", c>>
   /\ nfail' = 1
   /\ IF UseLock /\ ExitSusp = 1
      THEN /\ cs' = [cs EXCEPT ![c] = "exitfail"]
           /\ lock' = IF lock = c THEN 0 ELSE lock
           /\ UNCHANGED <<buf, reg, srcClosed>>
      ELSE Finally(c, "failed", IF lock = c THEN 0 ELSE lock)
   /\ srcBusy' = srcBusy \ {c}
   /\ UNCHANGED <<rem, recv, srcPos>>

Next == \/ (CloseAll \/ CloseAllBusy \/ \E c \in Child : Anext(c) \/ Grant(c) \/ Tick(c) \/ ExitStep(c) \/ Close(c) \/ Cancel(c)) /\ UNCHANGED nfail
        \/ \E c \in Child : Fail(c)

Spec == Init /\ [][Next]_vars

---------------------------------------------------------------------------
(* C09 as invariants                                                       *)
Finished(c) == cs[c] \in {"done", "closed", "cancelled", "failed"}
Live == {c \in Child : ~Finished(c)}
IsPrefixOfSource(s) == \A i \in 1..Len(s) : s[i] = i

\* every child yields the source's items in source order ...
PrefixOrder == \A c \in Child : IsPrefixOfSource(recv[c])
\* ... all of them, if it runs to exhaustion
Complete == \A c \in Child : cs[c] = "done" => Len(recv[c]) = SrcLen
\* each source item is fetched once: never more fetched than exist
FetchOnce == srcPos <= SrcLen
\* with a lock the source is never advanced by two consumers at once
NoOverlap == UseLock => Cardinality(srcBusy) <= 1
\* an item is retained only until the slowest live child has yielded it
Retention == \A c \in Child : \A i \in 1..Len(buf[c]) :
                 \E d \in Live : buf[c][i] > Len(recv[d])
\* registered live children hold exactly what they have not yielded yet
BufExact == \A c \in Live : reg[c] => Len(buf[c]) = srcPos - Len(recv[c])
\* the source is closed exactly when the last child is done
CloseOnce == srcClosed <= 1 /\ (Closable => (srcClosed = 1 <=> Live = {})) /\ (~Closable => srcClosed = 0)
\* a lock is never left held by a finished or idle child
LockFree == (\A c \in Child : cs[c] # "insrc") => lock = 0

\* progress: whenever some child is inside a call (waiting for the lock, inside the source, leaving the
\* lock), the *system* can take a step -- no consumer has to act for the others to get on.  Every system
\* step consumes something (a suspension, the lock queue, a pending exit), so this excludes deadlock and,
\* the graph of system steps being acyclic, shows that every call returns under weak fairness.
Pending(c) == cs[c] \in {"lockwait", "insrc", "exiting", "exitstop", "exitcancel", "exitfail"}
NoStuck == (\E c \in Child : Pending(c)) => \E c \in Child : ENABLED (Grant(c) \/ Tick(c) \/ ExitStep(c))

\* one line per generated transition: the label and the successor's projection
EmitEdge == EdgeFile = "" \/
   CSVWrite("%1$s", <<ToJson([f |-> [cs |-> cs, recv |-> recv, p |-> srcPos, busy |-> srcBusy, closed |-> srcClosed, l |-> lock, buf |-> buf, rem |-> rem, reg |-> reg, nfail |-> nfail],
                              a |-> last',
                              t |-> [cs |-> cs', recv |-> recv', p |-> srcPos', busy |-> srcBusy', closed |-> srcClosed', l |-> lock', buf |-> buf', rem |-> rem', reg |-> reg', nfail |-> nfail']])>>, EdgeFile)
=============================================================================
