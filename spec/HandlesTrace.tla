---------------------------- MODULE HandlesTrace ----------------------------
(* code -> spec for Handles.tla: random histories of borrow/scoped_iter that are *)
(* longer and use more handles than the exhaustively explored ones are recorded *)
(* from the real library and must be behaviours of the specification: every     *)
(* recorded operation is the corresponding action, its result (item / stop) and *)
(* what the underlying iterator has observed afterwards (items handed out,      *)
(* aclose calls, end detections where observable) equal the model's.            *)
EXTENDS Handles, TLCExt, IOUtils

Traces == JsonDeserialize(IOEnv.TRACE_FILE)
NT == Len(Traces)
VARIABLES tid, l
tvars == <<vars, tid, l>>
Reg(t) == t + 10
Ev == Traces[tid].ev
E == Ev[l + 1]

TInit == Init /\ tid \in 1..NT /\ l = 0 /\ TLCSet(Reg(tid), 0)
Observed == upos' = E.up /\ uclosed' = E.uc /\ (E.us >= 0 => ustop' = E.us)
Consume == l' = l + 1 /\ tid' = tid /\ TLCSet(Reg(tid), l + 1)
Is(op) == l < Len(Ev) /\ E.op = op

TStep == \/ Is("borrow") /\ Borrow(E.p)
         \/ Is("scope") /\ EnterScope(E.p)
         \/ Is("next") /\ Next(E.h) /\ last'[3] = E.item
         \/ Is("aclose") /\ Aclose(E.h)
         \/ Is("tool") /\ Tool(E.h, E.j, E.over)
         \/ Is("send") /\ Send(E.h) /\ last'[3] = E.item
         \/ Is("exit") /\ ExitScope(E.how)
TNext == TStep /\ Observed /\ Consume
Spec2 == TInit /\ [][TNext]_tvars

Rejected == {t \in 1..NT : TLCGet(Reg(t)) < Len(Traces[t].ev)}
Accepted == /\ PrintT(<<"VALIDATED", NT>>)
            /\ \A t \in Rejected : PrintT(<<"REJECTED", t, TLCGet(Reg(t))>>)
=============================================================================
