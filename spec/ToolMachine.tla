---------------------------- MODULE ToolMachine ----------------------------
(***************************************************************************)
(* One environment, many tools.                                            *)
(*                                                                         *)
(* Every sequential iterator tool and aggregation of asyncstdlib is a      *)
(* step function  Step_T(s, r) -> [s |-> s', eff |-> effect]  over a       *)
(* program counter, transcribed from the behaviour of the *standard        *)
(* library* function the tool promises to equal (properties C01, C02,      *)
(* C05, C06) -- the documented deviations are encoded here and nowhere     *)
(* else.  The environment owns all nondeterminism: the input data and      *)
(* parameters (Init), what the consumer does after every yield (next /     *)
(* close), and whether a use of a source or user callable fails.           *)
(*                                                                         *)
(* The log is the observable event sequence the properties talk about:     *)
(*   next | pull(src,res) | call(f,args,res) | yield(v) | end | raise(x)   *)
(*   | return(v) | close | raised                                          *)
(* The state graph is a tree (the log is part of the state); every leaf    *)
(* is one *case* which Emit writes as one NDJSON line.  The Python         *)
(* harness replays every case into asyncstdlib and into the synchronous    *)
(* standard library twin (harness/engines/toolmachine.py).                 *)
(***************************************************************************)
EXTENDS Integers, Sequences, FiniteSets, TLC, Json, CSV

CONSTANTS MaxLen,      \* maximal number of items per source
          MaxSrc,      \* maximal number of sources for variadic tools
          Tools,       \* names of the tools/aggregations explored in this run
          Faults,      \* TRUE: a use of a source/callable may raise (C06, C04)
          Prefixes,    \* TRUE: the consumer may close after any yield (C05, C04)
          OutFile      \* NDJSON file the cases are written to ("" = do not write)

VARIABLES cfg,     \* [tool, par, data]            -- fixed by Init
          st,      \* tool state record, st.pc
          pos,     \* pos[i]  = items handed out by source i
          sst,     \* sst[i] \in {"new","open","exhausted","failed","closed"}
          log,     \* observable events so far
          phase,   \* "consumer" | "tool" | "done"
          reply,   \* what the tool is resumed with
          nnext,   \* number of next() calls by the consumer
          nuse,    \* number of uses (pulls + calls) so far
          fault    \* 0, or the index of the use that failed

vars == <<cfg, st, pos, sst, log, phase, reply, nnext, nuse, fault>>

---------------------------------------------------------------------------
(* Vocabulary                                                              *)

SeqsUpTo(S, n) == UNION {[1..m -> S] : m \in 0..n}
NonDecr(q) == \A i \in 1..(Len(q) - 1) : q[i] <= q[i + 1]
NonIncr(q) == \A i \in 1..(Len(q) - 1) : q[i] >= q[i + 1]

NoneI == -1                       \* "None" for integer parameters

\* the item source i hands out at position p; k is what comparisons, truth tests,
\* predicates and key functions see, <<s,p>> is its identity
Item(i, p) == [s |-> i, p |-> p, k |-> cfg.data[i][p]]
NSrc == Len(cfg.data)

\* par.alias: the *same* iterator object is passed at every position (the grouper recipe
\* zip(*[it] * n)): every pull, whatever position it is for, advances source 1
Aliased == "alias" \in DOMAIN cfg.par /\ cfg.par.alias

\* effects a tool can request
Pull(i)     == [e |-> "pull", i |-> i]
Call(f, a)  == [e |-> "call", f |-> f, a |-> a]
Yield(v)    == [e |-> "yield", v |-> v]
End         == [e |-> "end"]
RaiseX(x)   == [e |-> "raise", x |-> x]
Return(v)   == [e |-> "return", v |-> v]
Await(x)    == [e |-> "await", x |-> x]      \* await a user-supplied awaitable whose value is x

\* user callables are total functions of their arguments (fixed here) ...
Truthy(x) == x.k # 0
\* ... or free constructors, so that argument order, association and the number of
\* calls are all visible in the results
Node(f, a) == [f |-> f, a |-> a]
Apply(f, a) ==
  CASE f = "pred" -> ~Truthy(a[1])     \* deliberately not the items' own truth value (what predicate None means)
    [] f = "key"  -> a[1].k
    [] f = "key2" -> a[1].k \div 2        \* ties items (2 and 3) that differ in their own order
    [] OTHER      -> Node(f, a)

To(pc) == [pc |-> pc]

\* special items (C02: inputs that make the standard library raise)
Unorderable(x) == x.k = 9       \* every ordering comparison involving it raises TypeError
Unhashable(x) == x.k = 8        \* hashing it raises TypeError

---------------------------------------------------------------------------
(* Iterator tools (C01, C05) -- the shape of the CPython implementations    *)

\* builtins.zip(*its, strict=)            [Python/bltinmodule.c zip_next]
Zip(s, r) ==
  LET n == NSrc  strict == cfg.par.strict IN
  CASE s.pc = "init" ->
         IF n = 0 THEN [s |-> To("end"), eff |-> End]
         ELSE [s |-> [pc |-> "got", i |-> 1, acc |-> <<>>], eff |-> Pull(1)]
    [] s.pc = "got" ->
         IF r.k = "item"
         THEN LET acc2 == Append(s.acc, r.v) IN
              IF s.i = n THEN [s |-> To("yielded"), eff |-> Yield(acc2)]
              ELSE [s |-> [pc |-> "got", i |-> s.i + 1, acc |-> acc2], eff |-> Pull(s.i + 1)]
         ELSE IF ~strict THEN [s |-> To("end"), eff |-> End]
         ELSE IF s.i > 1 THEN [s |-> To("end"), eff |-> RaiseX("ValueError")]
         ELSE IF n = 1 THEN [s |-> To("end"), eff |-> End]
         ELSE [s |-> [pc |-> "chk", i |-> 2], eff |-> Pull(2)]
    [] s.pc = "chk" ->
         IF r.k = "item" THEN [s |-> To("end"), eff |-> RaiseX("ValueError")]
         ELSE IF s.i = n THEN [s |-> To("end"), eff |-> End]
         ELSE [s |-> [pc |-> "chk", i |-> s.i + 1], eff |-> Pull(s.i + 1)]
    [] s.pc = "yielded" ->
         [s |-> [pc |-> "got", i |-> 1, acc |-> <<>>], eff |-> Pull(1)]

\* builtins.map(func, *its)               [map_next: all items, then the call]
Map(s, r) ==
  LET n == NSrc IN
  CASE s.pc \in {"init", "yielded"} ->
         [s |-> [pc |-> "got", i |-> 1, acc |-> <<>>], eff |-> Pull(1)]
    [] s.pc = "got" ->
         IF r.k = "item"
         THEN LET acc2 == Append(s.acc, r.v) IN
              IF s.i = n THEN [s |-> To("called"), eff |-> Call("func", acc2)]
              ELSE [s |-> [pc |-> "got", i |-> s.i + 1, acc |-> acc2], eff |-> Pull(s.i + 1)]
         ELSE [s |-> To("end"), eff |-> End]
    [] s.pc = "called" -> [s |-> To("yielded"), eff |-> Yield(r.v)]

\* builtins.filter(pred|None, it) and itertools.filterfalse(pred|None, it)
FilterT(s, r, keep) ==
  CASE s.pc \in {"init", "yielded"} -> [s |-> To("got"), eff |-> Pull(1)]
    [] s.pc = "got" ->
         IF r.k = "stop" THEN [s |-> To("end"), eff |-> End]
         ELSE IF cfg.par.pred
              THEN [s |-> [pc |-> "tested", x |-> r.v], eff |-> Call("pred", <<r.v>>)]
              ELSE IF Truthy(r.v) = keep THEN [s |-> To("yielded"), eff |-> Yield(r.v)]
                   ELSE [s |-> To("got"), eff |-> Pull(1)]
    [] s.pc = "tested" ->
         IF r.v = keep THEN [s |-> To("yielded"), eff |-> Yield(s.x)]
         ELSE [s |-> To("got"), eff |-> Pull(1)]

\* builtins.enumerate(it, start)
Enumerate(s, r) ==
  CASE s.pc = "init" -> [s |-> [pc |-> "got", c |-> cfg.par.start], eff |-> Pull(1)]
    [] s.pc = "got" ->
         IF r.k = "stop" THEN [s |-> To("end"), eff |-> End]
         ELSE [s |-> [pc |-> "yielded", c |-> s.c], eff |-> Yield(<<s.c, r.v>>)]
    [] s.pc = "yielded" -> [s |-> [pc |-> "got", c |-> s.c + 1], eff |-> Pull(1)]

\* builtins.iter(callable, sentinel): the callable hands out the data items, then a
\* terminator.  par.sent = "eq": the terminator is another item that equals the sentinel (and
\* any data item equal by k to the sentinel stops earlier); par.sent = "ident": the terminator
\* is the sentinel object itself, whose equality is not reflexive (like NaN) -- the standard
\* library still stops, because it compares by identity first.
SentinelKey == 2
NaNKey == 7
IsSentinel(x) == (x.s = 0 /\ x.p = 0) \/ (cfg.par.sent = "eq" /\ x.k = SentinelKey)
IterCall(s, r) ==
  CASE s.pc \in {"init", "yielded"} -> [s |-> To("called"), eff |-> Call("subject", <<>>)]
    [] s.pc = "called" ->
         IF IsSentinel(r.v) THEN [s |-> To("end"), eff |-> End]
         ELSE [s |-> To("yielded"), eff |-> Yield(r.v)]

\* itertools.accumulate(it, func=add, *, initial=)   [accumulate_next]
\* documented deviation: empty input without initial raises TypeError
Accumulate(s, r) ==
  LET F(a, b) == IF cfg.par.fn = "add" THEN [s |-> [pc |-> "yielded", acc |-> Node("add", <<a, b>>)],
                                               eff |-> Yield(Node("add", <<a, b>>))]
                 ELSE [s |-> To("called"), eff |-> Call("func", <<a, b>>)] IN
  CASE s.pc = "init" ->
         IF cfg.par.init
         THEN [s |-> [pc |-> "yielded", acc |-> Node("initial", <<>>)], eff |-> Yield(Node("initial", <<>>))]
         ELSE [s |-> To("first"), eff |-> Pull(1)]
    [] s.pc = "first" ->
         IF r.k = "stop" THEN [s |-> To("end"), eff |-> RaiseX("TypeError")]
         ELSE [s |-> [pc |-> "yielded", acc |-> r.v], eff |-> Yield(r.v)]
    [] s.pc = "yielded" -> [s |-> [pc |-> "got", acc |-> s.acc], eff |-> Pull(1)]
    [] s.pc = "got" ->
         IF r.k = "stop" THEN [s |-> To("end"), eff |-> End] ELSE F(s.acc, r.v)
    [] s.pc = "called" -> [s |-> [pc |-> "yielded", acc |-> r.v], eff |-> Yield(r.v)]

\* itertools.batched(it, n, strict=)       [batched_next; strict as of Python 3.13]
Batched(s, r) ==
  LET n == cfg.par.n IN
  CASE s.pc \in {"init", "yielded"} -> [s |-> [pc |-> "got", acc |-> <<>>], eff |-> Pull(1)]
    [] s.pc = "got" ->
         IF r.k = "item"
         THEN LET acc2 == Append(s.acc, r.v) IN
              IF Len(acc2) = n THEN [s |-> To("yielded"), eff |-> Yield(acc2)]
              ELSE [s |-> [pc |-> "got", acc |-> acc2], eff |-> Pull(1)]
         ELSE IF s.acc = <<>> THEN [s |-> To("end"), eff |-> End]
         ELSE IF cfg.par.strict THEN [s |-> To("end"), eff |-> RaiseX("ValueError")]
         ELSE [s |-> To("last"), eff |-> Yield(s.acc)]
    \* CPython (3.12, 3.13) keeps the iterator after a short final batch: asking again
    \* pulls the exhausted source once more
    [] s.pc = "last" -> [s |-> [pc |-> "got", acc |-> <<>>], eff |-> Pull(1)]

\* itertools.chain(*its) / chain.from_iterable(outer): source 0 is the outer iterable
\* when cfg.par.outer (it hands out the inner iterables 1..NSrc in order)
Chain(s, r) ==
  LET n == NSrc
      Open(i) == IF cfg.par.outer THEN [s |-> [pc |-> "outer", i |-> i], eff |-> Pull(0)]
                 ELSE IF i > n THEN [s |-> To("end"), eff |-> End]
                 ELSE [s |-> [pc |-> "got", i |-> i], eff |-> Pull(i)] IN
  CASE s.pc = "init" -> Open(1)
    [] s.pc = "outer" ->
         IF r.k = "stop" THEN [s |-> To("end"), eff |-> End]
         ELSE [s |-> [pc |-> "got", i |-> s.i], eff |-> Pull(s.i)]
    [] s.pc = "got" ->
         IF r.k = "stop" THEN Open(s.i + 1)
         ELSE [s |-> [pc |-> "yielded", i |-> s.i], eff |-> Yield(r.v)]
    [] s.pc = "yielded" -> [s |-> [pc |-> "got", i |-> s.i], eff |-> Pull(s.i)]

\* itertools.compress(data, selectors)     [datum first, then selector]
Compress(s, r) ==
  CASE s.pc \in {"init", "yielded"} -> [s |-> To("d"), eff |-> Pull(1)]
    [] s.pc = "d" ->
         IF r.k = "stop" THEN [s |-> To("end"), eff |-> End]
         ELSE [s |-> [pc |-> "sel", x |-> r.v], eff |-> Pull(2)]
    [] s.pc = "sel" ->
         IF r.k = "stop" THEN [s |-> To("end"), eff |-> End]
         ELSE IF Truthy(r.v) THEN [s |-> To("yielded"), eff |-> Yield(s.x)]
         ELSE [s |-> To("d"), eff |-> Pull(1)]

\* itertools.cycle(it): saved items replayed forever, no further pulls
Cycle(s, r) ==
  CASE s.pc = "init" -> [s |-> [pc |-> "got", saved |-> <<>>], eff |-> Pull(1)]
    [] s.pc = "got" ->
         IF r.k = "item"
         THEN [s |-> [pc |-> "yielded", saved |-> Append(s.saved, r.v)], eff |-> Yield(r.v)]
         ELSE IF s.saved = <<>> THEN [s |-> To("end"), eff |-> End]
         ELSE [s |-> [pc |-> "replay", saved |-> s.saved, j |-> 1], eff |-> Yield(s.saved[1])]
    [] s.pc = "yielded" -> [s |-> [pc |-> "got", saved |-> s.saved], eff |-> Pull(1)]
    [] s.pc = "replay" ->
         LET j2 == IF s.j = Len(s.saved) THEN 1 ELSE s.j + 1 IN
         [s |-> [pc |-> "replay", saved |-> s.saved, j |-> j2], eff |-> Yield(s.saved[j2])]

\* itertools.dropwhile(pred, it)
DropWhile(s, r) ==
  CASE s.pc = "init" -> [s |-> To("dgot"), eff |-> Pull(1)]
    [] s.pc = "dgot" ->
         IF r.k = "stop" THEN [s |-> To("end"), eff |-> End]
         ELSE [s |-> [pc |-> "tested", x |-> r.v], eff |-> Call("pred", <<r.v>>)]
    [] s.pc = "tested" ->
         IF r.v THEN [s |-> To("dgot"), eff |-> Pull(1)]
         ELSE [s |-> To("yielded"), eff |-> Yield(s.x)]
    [] s.pc = "yielded" -> [s |-> To("got"), eff |-> Pull(1)]
    [] s.pc = "got" ->
         IF r.k = "stop" THEN [s |-> To("end"), eff |-> End]
         ELSE [s |-> To("yielded"), eff |-> Yield(r.v)]

\* itertools.takewhile(pred, it)
TakeWhile(s, r) ==
  CASE s.pc \in {"init", "yielded"} -> [s |-> To("got"), eff |-> Pull(1)]
    [] s.pc = "got" ->
         IF r.k = "stop" THEN [s |-> To("end"), eff |-> End]
         ELSE [s |-> [pc |-> "tested", x |-> r.v], eff |-> Call("pred", <<r.v>>)]
    [] s.pc = "tested" ->
         IF r.v THEN [s |-> To("yielded"), eff |-> Yield(s.x)]
         ELSE [s |-> To("end"), eff |-> End]

\* itertools.islice(it, start, stop, step)  [islice_next: cnt/next counters]
ISlice(s, r) ==
  LET start == IF cfg.par.start = NoneI THEN 0 ELSE cfg.par.start
      stop  == cfg.par.stop
      step  == IF cfg.par.step = NoneI THEN 1 ELSE cfg.par.step
      \* resume the skip/take loop with counters cnt, nxt
      Go(cnt, nxt) ==
        IF cnt < nxt THEN [s |-> [pc |-> "skip", cnt |-> cnt, nxt |-> nxt], eff |-> Pull(1)]
        ELSE IF stop # NoneI /\ cnt >= stop THEN [s |-> To("end"), eff |-> End]
        ELSE [s |-> [pc |-> "take", cnt |-> cnt, nxt |-> nxt], eff |-> Pull(1)] IN
  CASE s.pc = "init" -> Go(0, start)
    [] s.pc = "skip" ->
         IF r.k = "stop" THEN [s |-> To("end"), eff |-> End] ELSE Go(s.cnt + 1, s.nxt)
    [] s.pc = "take" ->
         IF r.k = "stop" THEN [s |-> To("end"), eff |-> End]
         ELSE LET n1 == s.nxt + step
                  n2 == IF stop # NoneI /\ n1 > stop THEN stop ELSE n1 IN
              [s |-> [pc |-> "yielded", cnt |-> s.cnt + 1, nxt |-> n2], eff |-> Yield(r.v)]
    [] s.pc = "yielded" -> Go(s.cnt, s.nxt)

\* itertools.pairwise(it)                   [pairwise_next]
Pairwise(s, r) ==
  CASE s.pc = "init" -> [s |-> To("first"), eff |-> Pull(1)]
    [] s.pc = "first" ->
         IF r.k = "stop" THEN [s |-> To("end"), eff |-> End]
         ELSE [s |-> [pc |-> "got", old |-> r.v], eff |-> Pull(1)]
    [] s.pc = "got" ->
         IF r.k = "stop" THEN [s |-> To("end"), eff |-> End]
         ELSE [s |-> [pc |-> "yielded", old |-> r.v], eff |-> Yield(<<s.old, r.v>>)]
    [] s.pc = "yielded" -> [s |-> [pc |-> "got", old |-> s.old], eff |-> Pull(1)]

\* itertools.starmap(func, it): the source hands out argument tuples <<x, x>>
StarMap(s, r) ==
  CASE s.pc \in {"init", "yielded"} -> [s |-> To("got"), eff |-> Pull(1)]
    [] s.pc = "got" ->
         IF r.k = "stop" THEN [s |-> To("end"), eff |-> End]
         ELSE [s |-> To("called"), eff |-> Call("func", <<r.v, r.v>>)]
    [] s.pc = "called" -> [s |-> To("yielded"), eff |-> Yield(r.v)]

\* itertools.zip_longest(*its, fillvalue=)  [zip_longest_next]
\* the fill value is an object of its own, or the very object that is also the first item
FillFresh == Node("fill", <<>>)
Fill == IF cfg.par.fill = "first" /\ NSrc >= 1 /\ Len(cfg.data[1]) >= 1 THEN Item(1, 1) ELSE FillFresh
ZipLongest(s, r) ==
  LET n == NSrc
      \* continue the row at column i with `active` the still-live sources
      Row(i, acc, active) ==
        IF i > n THEN [s |-> [pc |-> "yielded", active |-> active], eff |-> Yield(acc)]
        ELSE IF i \in active
             THEN [s |-> [pc |-> "got", i |-> i, acc |-> acc, active |-> active], eff |-> Pull(i)]
             ELSE [s |-> [pc |-> "fill", i |-> i, acc |-> Append(acc, Fill), active |-> active], eff |-> [e |-> "tau"]] IN
  CASE s.pc = "init" ->
         IF n = 0 THEN [s |-> To("end"), eff |-> End] ELSE Row(1, <<>>, 1..n)
    [] s.pc = "fill" -> Row(s.i + 1, s.acc, s.active)
    [] s.pc = "got" ->
         IF r.k = "item" THEN Row(s.i + 1, Append(s.acc, r.v), s.active)
         ELSE LET act2 == s.active \ {s.i} IN
              IF act2 = {} THEN [s |-> To("end"), eff |-> End]
              ELSE Row(s.i + 1, Append(s.acc, Fill), act2)
    [] s.pc = "yielded" -> Row(1, <<>>, s.active)

\* heapq.merge(*its, key=, reverse=): heads collected at the first step, then always the
\* head that is least in (key, source index) -- greatest key and least index for reverse;
\* the last live source is passed through without key calls.
KeyOf(h) == h.key
Best(heads, live) ==
  CHOOSE b \in live : \A c \in live \ {b} :
     IF cfg.par.rev
     THEN heads[b].key > heads[c].key \/ (heads[b].key = heads[c].key /\ b < c)
     ELSE heads[b].key < heads[c].key \/ (heads[b].key = heads[c].key /\ b < c)
Merge(s, r) ==
  LET n == NSrc
      NoHead == [x |-> Node("none", <<>>), key |-> 0]
      \* after collecting heads / after a refill: yield the best head or finish
      Pick(heads, live) ==
        IF live = {} THEN [s |-> To("end"), eff |-> End]
        ELSE LET b == Best(heads, live) IN
             IF Cardinality(live) = 1
             THEN [s |-> [pc |-> "tail", b |-> b], eff |-> Yield(heads[b].x)]
             ELSE [s |-> [pc |-> "yielded", heads |-> heads, live |-> live, b |-> b], eff |-> Yield(heads[b].x)]
      Collect(i, heads, live) ==
        IF i > n THEN Pick(heads, live)
        ELSE [s |-> [pc |-> "cgot", i |-> i, heads |-> heads, live |-> live], eff |-> Pull(i)] IN
  CASE s.pc = "init" -> Collect(1, [i \in 1..n |-> NoHead], {})
    [] s.pc = "cgot" ->
         IF r.k = "stop" THEN Collect(s.i + 1, s.heads, s.live)
         ELSE IF cfg.par.key
              THEN [s |-> [pc |-> "ckey", i |-> s.i, heads |-> s.heads, live |-> s.live, x |-> r.v],
                    eff |-> Call("key", <<r.v>>)]
              ELSE Collect(s.i + 1, [s.heads EXCEPT ![s.i] = [x |-> r.v, key |-> r.v.k]], s.live \cup {s.i})
    [] s.pc = "ckey" ->
         Collect(s.i + 1, [s.heads EXCEPT ![s.i] = [x |-> s.x, key |-> r.v]], s.live \cup {s.i})
    [] s.pc = "yielded" ->
         [s |-> [pc |-> "rgot", heads |-> s.heads, live |-> s.live, b |-> s.b], eff |-> Pull(s.b)]
    [] s.pc = "rgot" ->
         IF r.k = "stop" THEN Pick(s.heads, s.live \ {s.b})
         ELSE IF cfg.par.key
              THEN [s |-> [pc |-> "rkey", heads |-> s.heads, live |-> s.live, b |-> s.b, x |-> r.v],
                    eff |-> Call("key", <<r.v>>)]
              ELSE Pick([s.heads EXCEPT ![s.b] = [x |-> r.v, key |-> r.v.k]], s.live)
    [] s.pc = "rkey" -> Pick([s.heads EXCEPT ![s.b] = [x |-> s.x, key |-> r.v]], s.live)
    [] s.pc = "tail" -> [s |-> [pc |-> "tgot", b |-> s.b], eff |-> Pull(s.b)]
    [] s.pc = "tgot" ->
         IF r.k = "stop" THEN [s |-> To("end"), eff |-> End]
         ELSE [s |-> [pc |-> "tail", b |-> s.b], eff |-> Yield(r.v)]

---------------------------------------------------------------------------
(* Aggregations (C02; all/any also C05) -- they end with Return or Raise   *)

\* builtins.all / builtins.any: short-circuit
AllAny(s, r, isAll) ==
  CASE s.pc = "init" -> [s |-> To("got"), eff |-> Pull(1)]
    [] s.pc = "got" ->
         IF r.k = "stop" THEN [s |-> To("end"), eff |-> Return(isAll)]
         ELSE IF Truthy(r.v) = isAll THEN [s |-> To("got"), eff |-> Pull(1)]
         ELSE [s |-> To("end"), eff |-> Return(~isAll)]

\* left fold shared by sum / functools.reduce
\* sum(it, start): start is 0 or a user object; reduce(func, it[, initial])
StartV == IF cfg.par.startv = "zero" THEN 0 ELSE Node("startobj", <<>>)
Sum(s, r) ==
  CASE s.pc = "init" ->
         \* sum() can't sum strings / bytes / bytearrays -- nor instances of their subclasses
         IF cfg.par.startv \in {"str", "strsub", "bytes", "bytearraysub"} THEN [s |-> To("end"), eff |-> RaiseX("TypeError")]
         ELSE [s |-> [pc |-> "got", acc |-> StartV], eff |-> Pull(1)]
    [] s.pc = "got" ->
         IF r.k = "stop" THEN [s |-> To("end"), eff |-> Return(s.acc)]
         ELSE [s |-> [pc |-> "got", acc |-> Node("add", <<s.acc, r.v>>)], eff |-> Pull(1)]

Reduce(s, r) ==
  CASE s.pc = "init" ->
         IF cfg.par.init THEN [s |-> [pc |-> "got", acc |-> Node("initial", <<>>)], eff |-> Pull(1)]
         ELSE [s |-> To("first"), eff |-> Pull(1)]
    [] s.pc = "first" ->
         IF r.k = "stop" THEN [s |-> To("end"), eff |-> RaiseX("TypeError")]
         ELSE [s |-> [pc |-> "got", acc |-> r.v], eff |-> Pull(1)]
    [] s.pc = "got" ->
         IF r.k = "stop" THEN [s |-> To("end"), eff |-> Return(s.acc)]
         ELSE [s |-> To("called"), eff |-> Call("func", <<s.acc, r.v>>)]
    [] s.pc = "called" -> [s |-> [pc |-> "got", acc |-> r.v], eff |-> Pull(1)]

\* builtins.min / builtins.max (iterable, key=, default=): the FIRST extremum;
\* key is called once per item, right after the item is pulled; a default is returned
\* untouched and never passed to key.
MinMax(s, r, isMax) ==
  LET Better(k, bk) == IF isMax THEN k > bk ELSE k < bk
      Consider(x, k) ==
        IF s.has /\ ~cfg.par.key /\ (Unorderable(x) \/ Unorderable(s.best))
        THEN [s |-> To("end"), eff |-> RaiseX("TypeError")]       \* the comparison itself fails
        ELSE IF s.has /\ ~Better(k, s.bk)
        THEN [s |-> [pc |-> "got", has |-> TRUE, best |-> s.best, bk |-> s.bk], eff |-> Pull(1)]
        ELSE [s |-> [pc |-> "got", has |-> TRUE, best |-> x, bk |-> k], eff |-> Pull(1)] IN
  CASE s.pc = "init" ->
         [s |-> [pc |-> "got", has |-> FALSE, best |-> Node("none", <<>>), bk |-> 0], eff |-> Pull(1)]
    [] s.pc = "got" ->
         IF r.k = "stop"
         THEN IF s.has THEN [s |-> To("end"), eff |-> Return(s.best)]
              ELSE IF cfg.par.dflt # "no" THEN [s |-> To("end"), eff |-> Return(Node("default", <<>>))]
              ELSE [s |-> To("end"), eff |-> RaiseX("ValueError")]
         ELSE IF cfg.par.key
              THEN [s |-> [pc |-> "keyed", has |-> s.has, best |-> s.best, bk |-> s.bk, x |-> r.v],
                    eff |-> Call(cfg.par.kf, <<r.v>>)]
              ELSE Consider(r.v, r.v.k)
    [] s.pc = "keyed" -> Consider(s.x, r.v)

\* collectors: list / tuple / set / dict -- results as sequences of items in the order
\* the constructor keeps them (set: first of equal items, reported in first-seen order;
\* dict: first key object, last value, insertion order of first key)
Collect(s, r, kind) ==
  LET HasK(acc, k) == \E j \in 1..Len(acc) : acc[j].k = k
      AddSet(acc, x) == IF HasK(acc, x.k) THEN acc ELSE Append(acc, x)
      \* dict: the source hands out pairs <<"k<key of x>", val(x)>>; the first key object stays,
      \* the last value wins
      KeyStr(x) == "k" \o ToString(x.k)
      AddDict(acc, x) ==
        IF \E j \in 1..Len(acc) : acc[j].x = KeyStr(x)
        THEN [j \in 1..Len(acc) |-> IF acc[j].x = KeyStr(x) THEN [x |-> acc[j].x, last |-> Node("val", <<x>>)] ELSE acc[j]]
        ELSE Append(acc, [x |-> KeyStr(x), last |-> Node("val", <<x>>)])
      \* dict(pairs, k1=kw): the keyword is applied after the pairs (update semantics)
      WithKw(acc) ==
        IF kind # "dict" \/ ~cfg.par.kw THEN acc
        ELSE IF \E j \in 1..Len(acc) : acc[j].x = "k1"
        THEN [j \in 1..Len(acc) |-> IF acc[j].x = "k1" THEN [x |-> "k1", last |-> Node("kw", <<>>)] ELSE acc[j]]
        ELSE Append(acc, [x |-> "k1", last |-> Node("kw", <<>>)])
      Add(acc, x) == CASE kind = "set" -> AddSet(acc, x) [] kind = "dict" -> AddDict(acc, x) [] OTHER -> Append(acc, x) IN
  CASE s.pc = "init" -> [s |-> [pc |-> "got", acc |-> <<>>], eff |-> Pull(1)]
    [] s.pc = "got" ->
         IF r.k = "stop" THEN [s |-> To("end"), eff |-> Return(WithKw(s.acc))]
         ELSE IF kind = "set" /\ Unhashable(r.v) THEN [s |-> To("end"), eff |-> RaiseX("TypeError")]
         ELSE [s |-> [pc |-> "got", acc |-> Add(s.acc, r.v)], eff |-> Pull(1)]

\* stable sort of a sequence of [x, key] records; reverse keeps equal elements in
\* their original order (list.sort(reverse=True))
RECURSIVE InsertSorted(_, _, _)
InsertSorted(sorted, e, rev) ==
  \* insert e after every element that must precede it
  IF sorted = <<>> THEN <<e>>
  ELSE LET h == Head(sorted)
           before == IF rev THEN h.key >= e.key ELSE h.key <= e.key IN
       IF before THEN <<h>> \o InsertSorted(Tail(sorted), e, rev)
       ELSE <<e>> \o sorted
RECURSIVE StableSort(_, _)
StableSort(q, rev) ==
  IF q = <<>> THEN <<>>
  ELSE InsertSorted(StableSort(SubSeq(q, 1, Len(q) - 1), rev), q[Len(q)], rev)
Xs(q) == [j \in 1..Len(q) |-> q[j].x]
FirstN(q, n) == SubSeq(q, 1, IF n < 0 THEN 0 ELSE IF n > Len(q) THEN Len(q) ELSE n)

\* builtins.sorted(it, key=, reverse=) ; heapq.nlargest/nsmallest(n, it, key=)
\* (key called once per item; the use order relative to pulls is not part of C02)
Sorted(s, r, mode) ==
  LET rev == IF mode = "sorted" THEN cfg.par.rev ELSE mode = "nlargest"
      Finish(acc) ==
        LET full == Xs(StableSort(acc, rev)) IN
        IF ~cfg.par.key /\ Len(acc) >= 2 /\ (\E j \in 1..Len(acc) : Unorderable(acc[j].x)) /\ (mode = "sorted" \/ cfg.par.n >= 1)
        THEN [s |-> To("end"), eff |-> RaiseX("TypeError")]       \* some comparison involves it
        ELSE [s |-> To("end"), eff |-> Return(IF mode = "sorted" THEN full ELSE FirstN(full, cfg.par.n))] IN
  CASE s.pc = "init" ->
         IF mode # "sorted" /\ cfg.par.n <= 0 THEN [s |-> To("end"), eff |-> Return(<<>>)]  \* nothing is consumed
         ELSE [s |-> [pc |-> "got", acc |-> <<>>], eff |-> Pull(1)]
    [] s.pc = "got" ->
         IF r.k = "stop"
         THEN \* heapq fills its heap from zip(range(n), it) and then goes on with `for elem in it`: an input that ends
              \* during the filling (0 < len < n, n # 1) is asked a second time before the result is built
              IF mode # "sorted" /\ cfg.par.n # 1 /\ Len(s.acc) > 0 /\ Len(s.acc) < cfg.par.n
              THEN [s |-> [pc |-> "again", acc |-> s.acc], eff |-> Pull(1)]
              ELSE Finish(s.acc)
         ELSE IF cfg.par.key
              THEN [s |-> [pc |-> "keyed", acc |-> s.acc, x |-> r.v], eff |-> Call("key", <<r.v>>)]
              ELSE [s |-> [pc |-> "got", acc |-> Append(s.acc, [x |-> r.v, key |-> r.v.k])], eff |-> Pull(1)]
    [] s.pc = "again" -> Finish(s.acc)
    [] s.pc = "keyed" ->
         [s |-> [pc |-> "got", acc |-> Append(s.acc, [x |-> s.x, key |-> r.v])], eff |-> Pull(1)]

---------------------------------------------------------------------------
(* asynctools adapters (C19)                                               *)

\* any_iter(x): x may be an awaitable of the iterable (par.outer), the items may be
\* awaitables (par.aw); every layer is awaited exactly when it is needed
AnyIter(s, r) ==
  CASE s.pc = "init" ->
         IF cfg.par.outer THEN [s |-> To("outer"), eff |-> Await(Node("iterable", <<>>))]
         ELSE [s |-> To("got"), eff |-> Pull(1)]
    [] s.pc \in {"outer", "yielded"} -> [s |-> To("got"), eff |-> Pull(1)]
    [] s.pc = "got" ->
         IF r.k = "stop" THEN [s |-> To("end"), eff |-> End]
         ELSE IF cfg.par.aw THEN [s |-> To("awaited"), eff |-> Await(r.v)]
         ELSE [s |-> To("yielded"), eff |-> Yield(r.v)]
    [] s.pc = "awaited" -> [s |-> To("yielded"), eff |-> Yield(r.v)]

\* await_each(awaitables): one awaitable is taken and awaited per item the consumer asks for
AwaitEach(s, r) ==
  CASE s.pc \in {"init", "yielded"} -> [s |-> To("got"), eff |-> Pull(1)]
    [] s.pc = "got" ->
         IF r.k = "stop" THEN [s |-> To("end"), eff |-> End]
         ELSE [s |-> To("awaited"), eff |-> Await(r.v)]
    [] s.pc = "awaited" -> [s |-> To("yielded"), eff |-> Yield(r.v)]

\* apply(func, *args, **kwargs): positional awaitables in order, then keyword awaitables in
\* order, then func on the awaited values; data[1] = positional, data[2] = keyword arguments
Apply_(s, r) ==
  LET np == Len(cfg.data[1])  nk == Len(cfg.data[2])
      Go(i, acc) ==
        IF i <= np THEN [s |-> [pc |-> "arg", i |-> i, acc |-> acc], eff |-> Await(Item(1, i))]
        ELSE IF i <= np + nk THEN [s |-> [pc |-> "arg", i |-> i, acc |-> acc], eff |-> Await(Item(2, i - np))]
        ELSE [s |-> To("called"), eff |-> Call("func", acc)] IN
  CASE s.pc = "init" -> Go(1, <<>>)
    [] s.pc = "arg" -> Go(s.i + 1, Append(s.acc, r.v))
    [] s.pc = "called" -> [s |-> To("end"), eff |-> Return(IF cfg.par.awres THEN Node("awaitable-result", <<r.v>>) ELSE r.v)]

\* sync(f): every call of the wrapper calls f once; its (awaited) result or its exception is the
\* outcome -- also when some calls of f return plain values and others awaitables
Sync(s, r) ==
  CASE s.pc = "init" -> [s |-> To("c1"), eff |-> Call("func", <<Item(1, 1)>>)]
    [] s.pc = "c1" -> [s |-> [pc |-> "c2", v1 |-> r.v], eff |-> Call("func", <<Item(1, 2)>>)]
    [] s.pc = "c2" -> [s |-> To("end"), eff |-> Return(<<s.v1, r.v>>)]

\* builtins.anext(iterator[, default]) called par.n times in a row on one iterator: one pull per
\* call, the item or -- at the end -- the default object (possibly None) / StopAsyncIteration; the iterator is only
\* borrowed (never closed), and may be asked again after it reported its end
ANext(s, r) ==
  LET dfl == Node("default", <<>>) IN
  CASE s.pc = "init" -> [s |-> [pc |-> "got", acc |-> <<>>], eff |-> Pull(1)]
    [] s.pc = "got" ->
         IF r.k = "stop" /\ cfg.par.dflt = "no" THEN [s |-> To("end"), eff |-> RaiseX("Stop")]
         ELSE LET acc == Append(s.acc, IF r.k = "item" THEN r.v ELSE dfl) IN
              IF Len(acc) = cfg.par.n THEN [s |-> To("end"), eff |-> Return(acc)]
              ELSE [s |-> [pc |-> "got", acc |-> acc], eff |-> Pull(1)]

---------------------------------------------------------------------------
(* Dispatch and configuration space                                        *)

Step(s, r) ==
  CASE cfg.tool = "zip"         -> Zip(s, r)
    [] cfg.tool = "map"         -> Map(s, r)
    [] cfg.tool = "filter"      -> FilterT(s, r, TRUE)
    [] cfg.tool = "filterfalse" -> FilterT(s, r, FALSE)
    [] cfg.tool = "enumerate"   -> Enumerate(s, r)
    [] cfg.tool = "iter"        -> IterCall(s, r)
    [] cfg.tool = "accumulate"  -> Accumulate(s, r)
    [] cfg.tool = "batched"     -> Batched(s, r)
    [] cfg.tool = "chain"       -> Chain(s, r)
    [] cfg.tool = "compress"    -> Compress(s, r)
    [] cfg.tool = "cycle"       -> Cycle(s, r)
    [] cfg.tool = "dropwhile"   -> DropWhile(s, r)
    [] cfg.tool = "takewhile"   -> TakeWhile(s, r)
    [] cfg.tool = "islice"      -> ISlice(s, r)
    [] cfg.tool = "pairwise"    -> Pairwise(s, r)
    [] cfg.tool = "starmap"     -> StarMap(s, r)
    [] cfg.tool = "zip_longest" -> ZipLongest(s, r)
    [] cfg.tool = "merge"       -> Merge(s, r)
    [] cfg.tool = "all"         -> AllAny(s, r, TRUE)
    [] cfg.tool = "any"         -> AllAny(s, r, FALSE)
    [] cfg.tool = "sum"         -> Sum(s, r)
    [] cfg.tool = "reduce"      -> Reduce(s, r)
    [] cfg.tool = "min"         -> MinMax(s, r, FALSE)
    [] cfg.tool = "max"         -> MinMax(s, r, TRUE)
    [] cfg.tool = "list"        -> Collect(s, r, "list")
    [] cfg.tool = "tuple"       -> Collect(s, r, "list")
    [] cfg.tool = "set"         -> Collect(s, r, "set")
    [] cfg.tool = "dict"        -> Collect(s, r, "dict")
    [] cfg.tool = "sorted"      -> Sorted(s, r, "sorted")
    [] cfg.tool = "nlargest"    -> Sorted(s, r, "nlargest")
    [] cfg.tool = "nsmallest"   -> Sorted(s, r, "nsmallest")
    [] cfg.tool = "any_iter"    -> AnyIter(s, r)
    [] cfg.tool = "await_each"  -> AwaitEach(s, r)
    [] cfg.tool = "apply"       -> Apply_(s, r)
    [] cfg.tool = "sync"        -> Sync(s, r)
    [] cfg.tool = "anext"       -> ANext(s, r)

K1 == {1}            \* opaque items: only identity matters
K01 == {0, 1}        \* truth values / predicate outcomes
K12 == {1, 2}        \* two key classes: ties among distinguishable items
K123 == {1, 2, 3}
K129 == {1, 2, 9}    \* ... with an unorderable item
K128 == {1, 2, 8}    \* ... with an unhashable item

DataSets(n, K) == [1..n -> SeqsUpTo(K, MaxLen)]
\* one source more than MaxSrc, each with at most one item: who is asked first, who is never asked
WideSets(K) == [1..(MaxSrc + 1) -> SeqsUpTo(K, 1)]
NoPar == [z |-> 0]

ConfigsOf(t) ==
  CASE t = "zip" ->
         \* key 0 stands for an item that is the object None (nothing may be read into that)
         {[tool |-> t, par |-> [strict |-> b], data |-> d] :
             \* (two kinds of items for at most two sources, opaque items beyond: 31^3 data sets would be too many)
             b \in BOOLEAN, d \in UNION {DataSets(n, IF n <= 2 THEN K01 ELSE K1) : n \in 0..MaxSrc} \cup WideSets(K01)}
         \cup {[tool |-> t, par |-> [strict |-> b, alias |-> TRUE], data |-> [i \in 1..n |-> d]] :
                b \in BOOLEAN, n \in 2..(MaxSrc + 1), d \in SeqsUpTo(K1, MaxLen + 1)}
    [] t = "map" ->
         {[tool |-> t, par |-> NoPar, data |-> d] : d \in UNION {DataSets(n, K1) : n \in 1..2}}
    [] t \in {"filter", "filterfalse"} ->
         {[tool |-> t, par |-> [pred |-> b], data |-> d] : b \in BOOLEAN, d \in DataSets(1, K01)}
    [] t = "enumerate" ->
         {[tool |-> t, par |-> [start |-> c], data |-> d] : c \in {0, 5}, d \in DataSets(1, K1)}
    [] t = "iter" ->
         {[tool |-> t, par |-> [sent |-> v], data |-> d] : v \in {"eq", "ident"}, d \in DataSets(1, K12)}
    [] t = "accumulate" ->
         {[tool |-> t, par |-> [init |-> b, fn |-> f], data |-> d] :
             b \in BOOLEAN, f \in {"func", "add"}, d \in DataSets(1, K1)}
    [] t = "batched" ->
         {[tool |-> t, par |-> [n |-> m, strict |-> b], data |-> d] :
             m \in 1..(MaxLen + 1), b \in BOOLEAN, d \in DataSets(1, K1)}
    [] t = "chain" ->
         {[tool |-> t, par |-> [outer |-> b], data |-> d] :
             b \in BOOLEAN, d \in UNION {DataSets(n, K1) : n \in 0..MaxSrc} \cup WideSets(K1)}
    [] t = "compress" ->
         {[tool |-> t, par |-> NoPar, data |-> d] : d \in DataSets(2, K01)}
    [] t \in {"cycle", "pairwise", "starmap"} ->
         {[tool |-> t, par |-> NoPar, data |-> d] : d \in DataSets(1, K1)}
    [] t \in {"dropwhile", "takewhile"} ->
         {[tool |-> t, par |-> NoPar, data |-> d] : d \in DataSets(1, K01)}
    [] t = "islice" ->
         {[tool |-> t, par |-> [start |-> a, stop |-> b, step |-> c], data |-> d] :
             a \in {NoneI} \cup 0..(MaxLen + 1), b \in {NoneI} \cup 0..(MaxLen + 2),
             c \in {NoneI} \cup 1..3, d \in {dd \in DataSets(1, K1) : Len(dd[1]) \in {0, 1, MaxLen - 1, MaxLen}}}
    [] t = "zip_longest" ->
         {[tool |-> t, par |-> [fill |-> f], data |-> d] : f \in {"fresh", "first"}, d \in UNION {DataSets(n, K1) : n \in 0..MaxSrc} \cup WideSets(K1)}
         \cup {[tool |-> t, par |-> [fill |-> "fresh", alias |-> TRUE], data |-> [i \in 1..n |-> d]] :
                n \in 2..(MaxSrc + 1), d \in SeqsUpTo(K1, MaxLen + 1)}
    [] t = "merge" ->
         UNION {{[tool |-> t, par |-> [key |-> b, rev |-> v], data |-> d] :
                   b \in BOOLEAN,
                   \* (three and more sources with at most three items each)
                   d \in UNION {{dd \in [1..n -> SeqsUpTo(K12, IF n <= 2 THEN MaxLen ELSE 3)] :
                                   \A i \in 1..n : IF v THEN NonIncr(dd[i]) ELSE NonDecr(dd[i])} : n \in 0..MaxSrc}
                        \cup WideSets(K12)}
                : v \in BOOLEAN}
    [] t \in {"all", "any"} ->
         {[tool |-> t, par |-> NoPar, data |-> d] : d \in DataSets(1, K01)}
    [] t = "sum" ->
         {[tool |-> t, par |-> [startv |-> v], data |-> d] : v \in {"zero", "obj", "str", "strsub", "bytes", "bytearraysub"}, d \in DataSets(1, K1)}
    [] t = "reduce" ->
         \* inone: the initial value is the object None -- an initial value like any other
         {[tool |-> t, par |-> [init |-> b, inone |-> FALSE], data |-> d] : b \in BOOLEAN, d \in DataSets(1, K1)}
         \cup {[tool |-> t, par |-> [init |-> TRUE, inone |-> TRUE], data |-> d] : d \in DataSets(1, K1)}
    [] t \in {"min", "max"} ->
         \* dflt: "no" | "fresh" (an object of its own) | "first" (the very object that is also
         \* the first item, if there is one): only for empty input is the default the result
         UNION {{[tool |-> t, par |-> [key |-> b, kf |-> "key", dflt |-> v], data |-> d] :
                   v \in {"no", "fresh", "first"}, d \in DataSets(1, IF b THEN K12 ELSE K129)} : b \in BOOLEAN}
         \cup {[tool |-> t, par |-> [key |-> TRUE, kf |-> "key2", dflt |-> "no"], data |-> d] : d \in DataSets(1, K123)}
    [] t \in {"list", "tuple"} ->
         {[tool |-> t, par |-> NoPar, data |-> d] : d \in DataSets(1, K1)}
    [] t = "set" ->
         {[tool |-> t, par |-> NoPar, data |-> d] : d \in DataSets(1, K128)}
    [] t = "dict" ->
         {[tool |-> t, par |-> [kw |-> b], data |-> d] : b \in BOOLEAN, d \in DataSets(1, K12)}
    [] t = "sorted" ->
         UNION {{[tool |-> t, par |-> [key |-> b, rev |-> v], data |-> d] :
                   v \in BOOLEAN, d \in DataSets(1, IF b THEN K123 ELSE K129)} : b \in BOOLEAN}
    [] t \in {"nlargest", "nsmallest"} ->
         \* at most one unorderable item: heapq compares (item, order) tuples, so two *equal*
         \* unorderable items are ordered by their position without ever using "<"
         UNION {{[tool |-> t, par |-> [key |-> b, n |-> m], data |-> d] :
                   m \in 0..(MaxLen + 1),
                   d \in {dd \in DataSets(1, IF b THEN K123 ELSE K129) :
                            Cardinality({j \in 1..Len(dd[1]) : dd[1][j] = 9}) <= 1}} : b \in BOOLEAN}

    [] t = "any_iter" ->
         {[tool |-> t, par |-> [outer |-> b, aw |-> v], data |-> d] : b \in BOOLEAN, v \in BOOLEAN, d \in DataSets(1, K1)}
    [] t = "await_each" ->
         {[tool |-> t, par |-> NoPar, data |-> d] : d \in DataSets(1, K1)}
    [] t = "apply" ->
         \* awres: the function's own result is an awaitable object -- apply returns it, it does not await it
         {[tool |-> t, par |-> [awres |-> b], data |-> d] : b \in BOOLEAN, d \in {dd \in DataSets(2, K1) : Len(dd[1]) + Len(dd[2]) <= MaxLen + 1}}
    [] t = "sync" ->
         {[tool |-> t, par |-> NoPar, data |-> <<<<1, 1>>>>]}
    [] t = "anext" ->
         {[tool |-> t, par |-> [dflt |-> b, n |-> m], data |-> d] :
             b \in {"no", "fresh", "none"}, m \in 1..3, d \in DataSets(1, K01)}   \* "none": the default is the object None

Configs == UNION {ConfigsOf(t) : t \in Tools}

IsAggregation == cfg.tool \in {"all", "any", "sum", "reduce", "min", "max", "list", "tuple",
                               "set", "dict", "sorted", "nlargest", "nsmallest", "apply", "sync", "anext"}

\* how often the consumer may ask before it has to close (cycle never ends)
NextCap == IF cfg.tool = "cycle" THEN 2 * MaxLen + 1 ELSE 1000

---------------------------------------------------------------------------
(* The environment                                                         *)

Init == /\ cfg \in Configs
        /\ st = [pc |-> "init"]
        /\ pos = [i \in 0..Len(cfg.data) |-> 0]
        /\ sst = [i \in 0..Len(cfg.data) |-> "new"]
        /\ log = <<>>
        /\ phase = "consumer"
        /\ reply = [k |-> "none"]
        /\ nnext = 0 /\ nuse = 0 /\ fault = 0

Ev(x) == Append(log, x)

\* the consumer advances the iterator (or awaits the aggregation)
ConsumerNext ==
  /\ phase = "consumer" /\ nnext < NextCap
  /\ phase' = "tool" /\ reply' = [k |-> "resume"] /\ nnext' = nnext + 1
  /\ log' = Ev([ev |-> "next"])
  /\ UNCHANGED <<cfg, st, pos, sst, nuse, fault>>

\* the consumer closes the iterator after 0..n items (aggregations cannot be closed)
ConsumerClose ==
  /\ phase = "consumer" /\ ~IsAggregation
  /\ Prefixes \/ nnext >= NextCap
  /\ phase' = "done"
  /\ log' = Ev([ev |-> "close"])
  /\ UNCHANGED <<cfg, st, pos, sst, reply, nnext, nuse, fault>>

Finish(x) == /\ phase' = "done" /\ log' = Ev(x)

\* length of source i; source 0 is the outer iterable of chain.from_iterable
SrcLen(i) == IF i = 0 THEN NSrc ELSE Len(cfg.data[i])
SrcItem(i, p) == IF i = 0 THEN Node("inner", <<p>>) ELSE Item(i, p)

ToolStep ==
  /\ phase = "tool"
  /\ LET res == Step(st, reply)  eff == res.eff IN
     /\ st' = res.s
     /\ CASE eff.e = "pull" ->
               LET i == IF Aliased THEN 1 ELSE eff.i IN      \* one iterator object at every position
               \/ /\ pos[i] < SrcLen(i)
                  /\ pos' = [pos EXCEPT ![i] = @ + 1]
                  /\ sst' = [sst EXCEPT ![i] = "open"]
                  /\ reply' = [k |-> "item", v |-> SrcItem(i, pos[i] + 1)]
                  /\ log' = Ev([ev |-> "pull", src |-> i, res |-> "item"])
                  /\ nuse' = nuse + 1
                  /\ UNCHANGED <<phase, fault>>
               \/ /\ pos[i] >= SrcLen(i)
                  /\ sst' = [sst EXCEPT ![i] = "exhausted"]
                  /\ reply' = [k |-> "stop"]
                  /\ log' = Ev([ev |-> "pull", src |-> i, res |-> "stop"])
                  /\ nuse' = nuse + 1
                  /\ UNCHANGED <<pos, phase, fault>>
               \/ /\ Faults /\ fault = 0
                  /\ fault' = nuse + 1 /\ nuse' = nuse + 1
                  /\ sst' = [sst EXCEPT ![i] = "failed"]
                  /\ Finish([ev |-> "pull", src |-> i, res |-> "raise"])
                  /\ UNCHANGED <<pos, reply>>
          [] eff.e = "call" ->
               \/ /\ eff.f # "subject"
                  /\ reply' = [k |-> "ret", v |-> Apply(eff.f, eff.a)]
                  /\ log' = Ev([ev |-> "call", f |-> eff.f, a |-> eff.a, res |-> "ret"])
                  /\ nuse' = nuse + 1
                  /\ UNCHANGED <<pos, sst, phase, fault>>
               \/ /\ eff.f = "subject"     \* iter(callable, sentinel): the callable is the source
                  /\ pos' = [pos EXCEPT ![1] = @ + 1]
                  /\ reply' = [k |-> "ret",
                               v |-> IF pos[1] < Len(cfg.data[1]) THEN Item(1, pos[1] + 1)
                                     ELSE IF cfg.par.sent = "ident" THEN [s |-> 0, p |-> 0, k |-> NaNKey]
                                     ELSE [s |-> 1, p |-> pos[1] + 1, k |-> SentinelKey]]
                  /\ log' = Ev([ev |-> "call", f |-> eff.f, a |-> eff.a, res |-> "ret"])
                  /\ nuse' = nuse + 1
                  /\ UNCHANGED <<sst, phase, fault>>
               \/ /\ Faults /\ fault = 0
                  /\ fault' = nuse + 1 /\ nuse' = nuse + 1
                  /\ Finish([ev |-> "call", f |-> eff.f, a |-> eff.a, res |-> "raise"])
                  /\ UNCHANGED <<pos, sst, reply>>
          [] eff.e = "await" ->
               \/ /\ reply' = [k |-> "val", v |-> eff.x]
                  /\ log' = Ev([ev |-> "await", x |-> eff.x, res |-> "ret"])
                  /\ nuse' = nuse + 1
                  /\ UNCHANGED <<pos, sst, phase, fault>>
               \/ /\ Faults /\ fault = 0
                  /\ fault' = nuse + 1 /\ nuse' = nuse + 1
                  /\ Finish([ev |-> "await", x |-> eff.x, res |-> "raise"])
                  /\ UNCHANGED <<pos, sst, reply>>
          [] eff.e = "tau" ->
               /\ UNCHANGED <<pos, sst, log, phase, reply, nuse, fault>>
          [] eff.e = "yield" ->
               /\ log' = Ev([ev |-> "yield", v |-> eff.v])
               /\ phase' = "consumer"
               /\ UNCHANGED <<pos, sst, reply, nuse, fault>>
          [] eff.e = "end" ->
               /\ Finish([ev |-> "end"])
               /\ UNCHANGED <<pos, sst, reply, nuse, fault>>
          [] eff.e = "raise" ->
               /\ Finish([ev |-> "raise", x |-> eff.x])
               /\ UNCHANGED <<pos, sst, reply, nuse, fault>>
          [] eff.e = "return" ->
               /\ Finish([ev |-> "return", v |-> eff.v])
               /\ UNCHANGED <<pos, sst, reply, nuse, fault>>
  /\ UNCHANGED <<cfg, nnext>>

Next == ConsumerNext \/ ConsumerClose \/ ToolStep

Spec == Init /\ [][Next]_vars

---------------------------------------------------------------------------
(* Properties checked by TLC on the machine itself                         *)

Yields == SelectSeq(log, LAMBDA e : e.ev = "yield")
PullsOf(i) == SelectSeq(log, LAMBDA e : e.ev = "pull" /\ e.src = i)
Done == phase = "done"
LastEv == log[Len(log)].ev
Exhausted == Done /\ LastEv \in {"end", "return"}

\* C05/C06: nothing is used after a failure, and a source that reported its end is
\* never pulled again
NoUseAfterFault == fault # 0 => Done /\ nuse = fault
NoPullAfterStop ==
  (cfg.tool \notin {"batched", "anext", "nlargest", "nsmallest"} /\ ~Aliased) =>     \* (those ask again, like their counterparts)
  \A i \in 0..NSrc :
     LET p == PullsOf(i) IN \A j \in 1..(Len(p) - 1) : p[j].res = "item"

RECURSIVE LenUpTo(_)
LenUpTo(i) == IF i = 0 THEN 0 ELSE Len(cfg.data[i]) + LenUpTo(i - 1)
TotalLen == LenUpTo(NSrc)

\* C01: independent, declarative definitions of what full consumption produces
DeclZip ==
  (cfg.tool = "zip" /\ Exhausted /\ NSrc > 0 /\ ~Aliased) =>
     LET m == CHOOSE m \in 0..MaxLen : (\A i \in 1..NSrc : Len(cfg.data[i]) >= m)
                                      /\ (\E i \in 1..NSrc : Len(cfg.data[i]) = m) IN
     /\ Len(Yields) = m
     /\ \A j \in 1..m : Yields[j].v = [i \in 1..NSrc |-> Item(i, j)]
DeclZipStrict ==
  (cfg.tool = "zip" /\ cfg.par.strict /\ Done /\ fault = 0 /\ LastEv # "close" /\ NSrc > 0 /\ ~Aliased) =>
     (LastEv = "raise") = (\E i, j \in 1..NSrc : Len(cfg.data[i]) # Len(cfg.data[j]))
DeclChain ==
  (cfg.tool = "chain" /\ Exhausted) =>
     LET flat == [j \in 1..Len(Yields) |-> Yields[j].v] IN
     /\ Len(flat) = TotalLen
     /\ \A j \in 1..(Len(flat) - 1) :
           \/ flat[j].s < flat[j + 1].s
           \/ flat[j].s = flat[j + 1].s /\ flat[j].p + 1 = flat[j + 1].p
DeclISlice ==
  (cfg.tool = "islice" /\ Exhausted) =>
     LET start == IF cfg.par.start = NoneI THEN 0 ELSE cfg.par.start
         step == IF cfg.par.step = NoneI THEN 1 ELSE cfg.par.step
         n == Len(cfg.data[1])
         stop == IF cfg.par.stop = NoneI \/ cfg.par.stop > n THEN n ELSE cfg.par.stop
         idx == {j \in 0..(n - 1) : j >= start /\ j < stop /\ (j - start) % step = 0} IN
     /\ Len(Yields) = Cardinality(idx)
     /\ \A j \in 1..Len(Yields) : (Yields[j].v.p - 1) \in idx
     /\ \A j \in 1..(Len(Yields) - 1) : Yields[j].v.p < Yields[j + 1].v.p
DeclMerge ==
  (cfg.tool = "merge" /\ Exhausted) =>
     LET out == [j \in 1..Len(Yields) |-> Yields[j].v]
         Before(a, b) == \* a must come before b in a stable merge
            IF cfg.par.rev THEN a.k > b.k \/ (a.k = b.k /\ (a.s < b.s \/ (a.s = b.s /\ a.p < b.p)))
            ELSE a.k < b.k \/ (a.k = b.k /\ (a.s < b.s \/ (a.s = b.s /\ a.p < b.p))) IN
     /\ Len(out) = TotalLen
     /\ \A j \in 1..(Len(out) - 1) : Before(out[j], out[j + 1])
DeclSorted ==
  (cfg.tool \in {"sorted", "nlargest", "nsmallest"} /\ Exhausted) =>
     LET out == log[Len(log)].v
         rev == IF cfg.tool = "sorted" THEN cfg.par.rev ELSE cfg.tool = "nlargest" IN
     \A j \in 1..(Len(out) - 1) :
        IF rev THEN out[j].k > out[j + 1].k \/ (out[j].k = out[j + 1].k /\ out[j].p < out[j + 1].p)
        ELSE out[j].k < out[j + 1].k \/ (out[j].k = out[j + 1].k /\ out[j].p < out[j + 1].p)
DeclMinMax ==
  (cfg.tool \in {"min", "max"} /\ Exhausted /\ Len(cfg.data[1]) > 0 /\ log[Len(log)].ev = "return") =>
     LET out == log[Len(log)].v  d == cfg.data[1]
         KV(k) == IF cfg.par.key /\ cfg.par.kf = "key2" THEN k \div 2 ELSE k IN
     /\ \A p \in 1..Len(d) : IF cfg.tool = "max" THEN KV(d[p]) <= KV(out.k) ELSE KV(d[p]) >= KV(out.k)
     /\ \A p \in 1..(out.p - 1) : KV(d[p]) # KV(out.k)          \* the first one
DeclPairwise ==
  (cfg.tool = "pairwise" /\ Exhausted) =>
     /\ Len(Yields) = (IF Len(cfg.data[1]) = 0 THEN 0 ELSE Len(cfg.data[1]) - 1)
     /\ \A j \in 1..Len(Yields) : Yields[j].v = <<Item(1, j), Item(1, j + 1)>>
DeclBatched ==
  (cfg.tool = "batched" /\ Exhausted) =>
     LET flat == [j \in 1..Len(cfg.data[1]) |-> Item(1, j)]
         RECURSIVE Cat(_)
         Cat(j) == IF j = 0 THEN <<>> ELSE Cat(j - 1) \o Yields[j].v IN
     /\ Cat(Len(Yields)) = flat
     /\ \A j \in 1..(Len(Yields) - 1) : Len(Yields[j].v) = cfg.par.n

\* ... and of the one-source tools whose result is a selection or a transformation of the input
Src1 == [j \in 1..Len(cfg.data[1]) |-> Item(1, j)]
YV == [j \in 1..Len(Yields) |-> Yields[j].v]
PredOf(x) == Apply("pred", <<x>>)
\* length of the longest prefix of q on which P holds
RECURSIVE PrefixLen(_, _, _)
PrefixLen(q, P(_), j) == IF j > Len(q) \/ ~P(q[j]) THEN j - 1 ELSE PrefixLen(q, P, j + 1)
DeclFilter ==
  (cfg.tool \in {"filter", "filterfalse"} /\ Exhausted) =>
     LET Keep(x) == (IF cfg.par.pred THEN PredOf(x) ELSE Truthy(x)) = (cfg.tool = "filter") IN
     YV = SelectSeq(Src1, Keep)
DeclMap ==
  (cfg.tool = "map" /\ Exhausted) =>
     LET m == CHOOSE m \in 0..MaxLen : (\A i \in 1..NSrc : Len(cfg.data[i]) >= m) /\ (\E i \in 1..NSrc : Len(cfg.data[i]) = m) IN
     YV = [j \in 1..m |-> Apply("func", [i \in 1..NSrc |-> Item(i, j)])]
DeclStarMap ==
  (cfg.tool = "starmap" /\ Exhausted) => YV = [j \in 1..Len(Src1) |-> Apply("func", <<Src1[j], Src1[j]>>)]
DeclEnumerate ==
  (cfg.tool = "enumerate" /\ Exhausted) => YV = [j \in 1..Len(Src1) |-> <<cfg.par.start + j - 1, Src1[j]>>]
DeclTakeDrop ==
  (cfg.tool \in {"takewhile", "dropwhile"} /\ Exhausted) =>
     LET n == PrefixLen(Src1, PredOf, 1) IN
     YV = IF cfg.tool = "takewhile" THEN SubSeq(Src1, 1, n) ELSE SubSeq(Src1, n + 1, Len(Src1))
DeclCompress ==
  (cfg.tool = "compress" /\ Exhausted) =>
     LET m == IF Len(cfg.data[1]) < Len(cfg.data[2]) THEN Len(cfg.data[1]) ELSE Len(cfg.data[2])
         idx == {j \in 1..m : cfg.data[2][j] # 0} IN
     /\ Len(YV) = Cardinality(idx)
     /\ \A j \in 1..Len(YV) : YV[j].s = 1 /\ YV[j].p \in idx
     /\ \A j \in 1..(Len(YV) - 1) : YV[j].p < YV[j + 1].p
DeclAccumulate ==
  (cfg.tool = "accumulate" /\ Exhausted) =>
     LET F(a, b) == IF cfg.par.fn = "add" THEN Node("add", <<a, b>>) ELSE Apply("func", <<a, b>>)
         all == IF cfg.par.init THEN <<Node("initial", <<>>)>> \o Src1 ELSE Src1
         RECURSIVE Acc(_)
         Acc(j) == IF j = 1 THEN all[1] ELSE F(Acc(j - 1), all[j]) IN
     YV = [j \in 1..Len(all) |-> Acc(j)]
\* cycle never ends: whatever was delivered is a prefix of the input repeated
DeclCycle ==
  (cfg.tool = "cycle" /\ Len(Src1) > 0) =>
     \A j \in 1..Len(YV) : YV[j] = Src1[((j - 1) % Len(Src1)) + 1]
DeclZipLongest ==
  (cfg.tool = "zip_longest" /\ Exhausted /\ NSrc > 0 /\ ~Aliased) =>
     LET m == CHOOSE m \in 0..MaxLen : (\A i \in 1..NSrc : Len(cfg.data[i]) <= m) /\ (\E i \in 1..NSrc : Len(cfg.data[i]) = m) IN
     YV = [j \in 1..m |-> [i \in 1..NSrc |-> IF j <= Len(cfg.data[i]) THEN Item(i, j) ELSE Fill]]

\* the grouper recipe: the same iterator n times chops its items into consecutive n-tuples
DeclGrouper ==
  (cfg.tool \in {"zip", "zip_longest"} /\ Aliased /\ Exhausted /\ NSrc > 0) =>
     LET d == Len(cfg.data[1])  n == NSrc
         full == d \div n
         rows == IF cfg.tool = "zip_longest" /\ d % n # 0 THEN full + 1 ELSE full IN
     /\ Len(Yields) = rows
     /\ \A j \in 1..rows : \A i \in 1..n :
           LET p == (j - 1) * n + i IN
           Yields[j].v[i] = IF p <= d THEN Item(1, p) ELSE Fill

\* every case is written once, when the machine is done
Emit == (Done /\ OutFile # "") =>
          CSVWrite("%1$s", <<ToJson([cfg |-> cfg, log |-> log, nnext |-> nnext,
                                     fault |-> fault, sst |-> sst, pos |-> pos])>>, OutFile)
=============================================================================
