------------------------------- MODULE LruObs -------------------------------
(***************************************************************************)
(* What C11 demands of the observable events of an lru_cache used by       *)
(* overlapping callers -- nothing about how or when entries are stored.    *)
(* Trace validation of recorded executions (TRACE_FILE, JSON array of      *)
(*   {cfg: {maxsize (-1 = None), keys}, ev: [...]})                         *)
(* Events: start(t,k) a caller starts f(k); invoke(t,k,i) the wrapped      *)
(* function starts its i-th invocation; fnret(i) it returned; ret(t,k,i)   *)
(* the caller received the value of invocation i; err(t,k,same) the call   *)
(* raised; info(h,m,s) a cache_info() sample; clear; discard(k);           *)
(* quiesce; probe(k,inv,i) a sequential call after all calls finished.     *)
(***************************************************************************)
EXTENDS Integers, Sequences, FiniteSets, TLC, TLCExt, Json, IOUtils

Traces == JsonDeserialize(IOEnv.TRACE_FILE)
NT == Len(Traces)

VARIABLES tid, l,
          started,   \* calls started since the last cache_clear
          invoked,   \* invocations of the wrapped function since the last cache_clear
          invs,      \* invs[i] = [k, ok]: key and outcome of invocation i
          valid,     \* valid[k]: invocations whose value may currently be cached for k
          inflight   \* inflight[t]: key of the call task t is in (0 = none)
vars == <<tid, l, started, invoked, invs, valid, inflight>>

Cfg == Traces[tid].cfg
Ev == Traces[tid].ev
E == Ev[l + 1]
Reg(t) == t + 10
Is(name) == l < Len(Ev) /\ E.e = name
Consume == l' = l + 1 /\ tid' = tid /\ TLCSet(Reg(tid), l + 1)

Init == /\ tid \in 1..NT /\ l = 0
        /\ started = 0 /\ invoked = 0 /\ invs = <<>>
        /\ valid = [k \in 1..Traces[tid].cfg.keys |-> {}]
        /\ inflight = [t \in 1..Traces[tid].cfg.tasks |-> 0]
        /\ TLCSet(Reg(tid), 0)

Start == /\ Is("start") /\ inflight[E.t] = 0
         /\ started' = started + 1
         /\ inflight' = [inflight EXCEPT ![E.t] = E.k]
         /\ UNCHANGED <<invoked, invs, valid>> /\ Consume

\* misses equals the number of invocations: the function runs only for the call in flight
Invoke == /\ Is("invoke") /\ inflight[E.t] = E.k /\ E.i = Len(invs) + 1
          /\ invoked' = invoked + 1
          /\ invs' = Append(invs, [k |-> E.k, ok |-> FALSE])
          /\ UNCHANGED <<started, valid, inflight>> /\ Consume

FnRet == /\ Is("fnret") /\ E.i \in 1..Len(invs)
         /\ invs' = [invs EXCEPT ![E.i].ok = TRUE]
         /\ valid' = [valid EXCEPT ![invs[E.i].k] = @ \cup {E.i}]
         /\ UNCHANGED <<started, invoked, inflight>> /\ Consume

\* every caller receives a value the wrapped function produced for an equal pattern
Ret == /\ Is("ret") /\ inflight[E.t] = E.k
       /\ E.i \in 1..Len(invs) /\ invs[E.i].k = E.k /\ invs[E.i].ok
       /\ inflight' = [inflight EXCEPT ![E.t] = 0]
       /\ UNCHANGED <<started, invoked, invs, valid>> /\ Consume

\* a failing or cancelled call raises that very exception
Err == /\ Is("err") /\ inflight[E.t] = E.k /\ E.same
       /\ inflight' = [inflight EXCEPT ![E.t] = 0]
       /\ UNCHANGED <<started, invoked, invs, valid>> /\ Consume

\* hits + misses = calls made, misses = invocations, entries never exceed maxsize
Info == /\ Is("info")
        /\ E.h + E.m = started /\ E.m = invoked
        /\ Cfg.maxsize >= 0 => E.s <= Cfg.maxsize
        /\ E.s <= Cardinality({k \in DOMAIN valid : valid[k] # {}})
        /\ UNCHANGED <<started, invoked, invs, valid, inflight>> /\ Consume

ClearE == /\ Is("clear")
          /\ started' = 0 /\ invoked' = 0
          /\ valid' = [k \in DOMAIN valid |-> {}]
          /\ UNCHANGED <<invs, inflight>> /\ Consume

DiscardE == /\ Is("discard")
            /\ valid' = [valid EXCEPT ![E.k] = {}]
            /\ UNCHANGED <<started, invoked, invs, inflight>> /\ Consume

Quiesce == /\ Is("quiesce") /\ \A t \in DOMAIN inflight : inflight[t] = 0
           /\ UNCHANGED <<started, invoked, invs, valid, inflight>> /\ Consume

\* afterwards the cache is a plain C10 cache over its contents: a call served without
\* invoking the function returns a value that may legitimately be stored for that key
\* (in particular nothing a failed or cancelled call left behind)
Probe == /\ Is("probe")
         /\ started' = started + 1
         /\ IF E.inv
            THEN \* an unbounded cache evicts nothing: what a completed call stored (and nobody cleared or
                 \* discarded) is still there, whatever failed or was cancelled around it
                 /\ Cfg.maxsize = -1 => valid[E.k] = {}
                 /\ E.i = Len(invs) + 1
                 /\ invs' = Append(invs, [k |-> E.k, ok |-> TRUE])
                 /\ invoked' = invoked + 1
                 /\ valid' = [valid EXCEPT ![E.k] = @ \cup {E.i}]
            ELSE /\ E.i \in valid[E.k]
                 /\ UNCHANGED <<invs, invoked, valid>>
         /\ UNCHANGED inflight /\ Consume

Next == Start \/ Invoke \/ FnRet \/ Ret \/ Err \/ Info \/ ClearE \/ DiscardE \/ Quiesce \/ Probe
Spec == Init /\ [][Next]_vars

Rejected == {t \in 1..NT : TLCGet(Reg(t)) < Len(Traces[t].ev)}
Accepted == /\ PrintT(<<"VALIDATED", NT>>)
            /\ \A t \in Rejected : PrintT(<<"REJECTED", t, TLCGet(Reg(t))>>)
=============================================================================
