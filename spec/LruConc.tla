------------------------------ MODULE LruConc ------------------------------
(***************************************************************************)
(* lru_cache under overlapping calls and cancellation (C11; the lru_cache  *)
(* clause of C18).  __call__ has exactly one await (_lrucache.py:427-451   *)
(* and 372-386), so a call is two critical sections:                       *)
(*                                                                         *)
(*   CallStart(t, k)  key lookup; hit -> move-to-end, hits+1, done;        *)
(*                    miss -> misses+1, invoke the wrapped function        *)
(*   FnTick(t)        the wrapped function resumes; on its last tick it    *)
(*                    returns and the caller re-checks the cache: key      *)
(*                    present (a concurrent call finished first) -> leave  *)
(*                    it; full -> evict the oldest, insert; else insert    *)
(*   FnFail(t)        the wrapped function raises instead of returning     *)
(*   Cancel(t)        an exception is thrown into the suspended call       *)
(*   Clear, Discard(k) by anybody between two steps                        *)
(*                                                                         *)
(* State-lean on purpose (no value ids, no histories): values and the      *)
(* calls/invocations accounting are judged on recorded traces by LruObs.   *)
(***************************************************************************)
EXTENDS Integers, Sequences, FiniteSets, TLC, Json, CSV

CONSTANTS NTask, NKey, MaxSize, CallsPer, FnSusp, AllowClear, AllowCancel, AllowFail, EdgeFile
Unbounded == -1
Task == 1..NTask
Key == 1..NKey

VARIABLES order,    \* stored keys, least recently used first
          hits, misses,
          pc,       \* "idle" | "infn"
          tkey,     \* key of the call in flight
          rem,      \* remaining suspensions of the wrapped function
          left,     \* calls the task may still start
          last
vars == <<order, hits, misses, pc, tkey, rem, left, last>>
View == <<order, hits, misses, pc, tkey, rem, left>>

Init == /\ order = <<>> /\ hits = 0 /\ misses = 0
        /\ pc = [t \in Task |-> "idle"] /\ tkey = [t \in Task |-> 0]
        /\ rem = [t \in Task |-> 0] /\ left = [t \in Task |-> CallsPer]
        /\ last = <<"init", 0, 0>>

Without(s, k) == SelectSeq(s, LAMBDA x : x # k)
InStore(k) == \E i \in 1..Len(order) : order[i] = k
Caching == MaxSize # 0

CallStart(t, k) ==
  /\ pc[t] = "idle" /\ left[t] > 0
  /\ left' = [left EXCEPT ![t] = @ - 1]
  /\ last' = <<"start", t, k>>
  /\ IF Caching /\ InStore(k)
     THEN /\ hits' = hits + 1
          /\ order' = IF MaxSize = Unbounded THEN order ELSE Append(Without(order, k), k)
          /\ UNCHANGED <<misses, pc, tkey, rem>>
     ELSE /\ misses' = misses + 1
          /\ pc' = [pc EXCEPT ![t] = "infn"]
          /\ tkey' = [tkey EXCEPT ![t] = k]
          /\ rem' = [rem EXCEPT ![t] = FnSusp]
          /\ UNCHANGED <<order, hits>>

Idle(t) == /\ pc' = [pc EXCEPT ![t] = "idle"]
           /\ tkey' = [tkey EXCEPT ![t] = 0]
           /\ rem' = [rem EXCEPT ![t] = 0]

FnTick(t) ==
  /\ pc[t] = "infn"
  /\ last' = <<"tick", t, 0>>
  /\ IF rem[t] > 1
     THEN /\ rem' = [rem EXCEPT ![t] = @ - 1] /\ UNCHANGED <<order, hits, misses, pc, tkey, left>>
     ELSE LET k == tkey[t] IN
          /\ Idle(t)
          /\ order' = IF ~Caching \/ InStore(k) THEN order
                      ELSE IF MaxSize # Unbounded /\ Len(order) >= MaxSize THEN Append(Tail(order), k)
                      ELSE Append(order, k)
          /\ UNCHANGED <<hits, misses, left>>

\* the wrapped function raises on its last tick: nothing is stored
FnFail(t) ==
  /\ AllowFail /\ pc[t] = "infn" /\ rem[t] = 1
  /\ last' = <<"fail", t, 0>>
  /\ Idle(t)
  /\ UNCHANGED <<order, hits, misses, left>>

\* cancellation at any suspension point of the call: nothing is stored
Cancel(t) ==
  /\ AllowCancel /\ pc[t] = "infn"
  /\ last' = <<"cancel", t, 0>>
  /\ Idle(t)
  /\ UNCHANGED <<order, hits, misses, left>>

Clear == /\ AllowClear /\ (hits + misses > 0 \/ order # <<>>)
         /\ last' = <<"clear", 0, 0>>
         /\ order' = <<>> /\ hits' = 0 /\ misses' = 0
         /\ UNCHANGED <<pc, tkey, rem, left>>

Discard(k) == /\ AllowClear /\ InStore(k)
              /\ last' = <<"discard", 0, k>>
              /\ order' = Without(order, k)
              /\ UNCHANGED <<hits, misses, pc, tkey, rem, left>>

Next == \/ \E t \in Task : (\E k \in Key : CallStart(t, k)) \/ FnTick(t) \/ FnFail(t) \/ Cancel(t)
        \/ Clear \/ \E k \in Key : Discard(k)
Spec == Init /\ [][Next]_vars

\* the number of stored entries never exceeds maxsize at any moment
SizeBound == MaxSize # Unbounded => Len(order) <= MaxSize
NoDup == \A i, j \in 1..Len(order) : i # j => order[i] # order[j]
\* a call in flight never holds an entry of its own (nothing partial is stored)
TypeOK == \A t \in Task : (pc[t] = "infn") = (tkey[t] # 0)

EmitEdge == EdgeFile = "" \/
  CSVWrite("%1$s", <<ToJson([f |-> [o |-> order, h |-> hits, m |-> misses, pc |-> pc, k |-> tkey, r |-> rem, l |-> left],
                             a |-> last',
                             t |-> [o |-> order', h |-> hits', m |-> misses', pc |-> pc', k |-> tkey', r |-> rem', l |-> left']])>>, EdgeFile)
=============================================================================
