------------------------------- MODULE TeeObs -------------------------------
(***************************************************************************)
(* What property C09 (and the tee clauses of C04/C18/C20) demands of the   *)
(* externally observable events of a tee -- and nothing more.  It says     *)
(* nothing about when the source is pulled or how buffers are kept.        *)
(*                                                                         *)
(* Used for trace validation: TRACE_FILE holds a JSON array of recorded    *)
(* executions of the real asyncstdlib.tee,                                 *)
(*    [ {cfg: {n, len, lock}, ev: [ {e: "...", c: child, x: item} ... ]} ]   *)
(* every event is one action below, enabled only if the property allows    *)
(* it at that point.  A trace is accepted iff all its events are consumed. *)
(* One TLC run (-workers 1) validates the whole batch.                     *)
(***************************************************************************)
EXTENDS Naturals, Sequences, FiniteSets, TLC, TLCExt, Json, IOUtils

Traces == JsonDeserialize(IOEnv.TRACE_FILE)
NT == Len(Traces)

VARIABLES tid,       \* which trace
          l,         \* events consumed so far
          recv,      \* recv[c] = number of items child c delivered
          fetched,   \* items the source handed out
          inSrc,     \* children inside source.__anext__
          srcClosed, \* aclose() calls seen by the source
          fin,       \* fin[c]: child ended, was closed or cancelled
          lastF,     \* lastF[c]: last item fetched through child c (0 = none)
          visit      \* visit[c]: "in" while c is inside the source and got nothing so far, "got" once it fetched there,
                     \*           "empty" after it left the source without an item (it was told the end), "-" otherwise
vars == <<tid, l, recv, fetched, inSrc, srcClosed, fin, lastF, visit>>

Cfg == Traces[tid].cfg
Ev == Traces[tid].ev
Child == 1..Cfg.n
Reg(t) == t + 10        \* TLC register holding the longest matched prefix of trace t

Init == /\ tid \in 1..NT
        /\ l = 0
        /\ recv = [c \in 1..Traces[tid].cfg.n |-> 0]
        /\ fetched = 0 /\ inSrc = {} /\ srcClosed = 0
        /\ fin = [c \in 1..Traces[tid].cfg.n |-> FALSE]
        /\ lastF = [c \in 1..Traces[tid].cfg.n |-> 0]
        /\ visit = [c \in 1..Traces[tid].cfg.n |-> "-"]
        /\ TLCSet(Reg(tid), 0)

E == Ev[l + 1]
Is(name) == l < Len(Ev) /\ E.e = name
Consume == /\ l' = l + 1 /\ tid' = tid /\ TLCSet(Reg(tid), l + 1)

\* a consumer receives item x from child c: the source's items in source order,
\* only items the source has handed out
Recv == /\ Is("recv")
        /\ ~fin[E.c] /\ E.x = recv[E.c] + 1 /\ E.x <= fetched
        /\ recv' = [recv EXCEPT ![E.c] = E.x]
        /\ UNCHANGED <<fetched, inSrc, srcClosed, fin, lastF, visit>>
        /\ Consume

\* the source hands out item x: each item once, in order, to somebody inside it
Fetch == /\ Is("fetch")
         /\ E.x = fetched + 1 /\ E.x <= Cfg.len /\ E.c \in inSrc
         /\ fetched' = E.x
         /\ lastF' = [lastF EXCEPT ![E.c] = E.x]
         /\ visit' = [visit EXCEPT ![E.c] = "got"]
         /\ UNCHANGED <<recv, inSrc, srcClosed, fin>>
         /\ Consume

\* with a lock the source is never advanced by two consumers at once; a closed source
\* is not advanced at all
\* ... and a child advances the source only when it has nothing buffered: it has delivered every
\* item fetched so far (no reading ahead -- a child that found its buffer filled while it waited for the
\* lock delivers from the buffer)
Enter == /\ Is("enter")
         /\ Cfg.lock => inSrc = {}
         /\ srcClosed = 0 /\ ~fin[E.c]
         /\ recv[E.c] = fetched
         /\ inSrc' = inSrc \cup {E.c}
         /\ visit' = [visit EXCEPT ![E.c] = "in"]
         /\ UNCHANGED <<recv, fetched, srcClosed, fin, lastF>>
         /\ Consume
Leave == /\ Is("leave")
         /\ E.c \in inSrc
         /\ inSrc' = inSrc \ {E.c}
         /\ visit' = [visit EXCEPT ![E.c] = IF @ = "in" THEN "empty" ELSE "-"]
         /\ UNCHANGED <<recv, fetched, srcClosed, fin, lastF>>
         /\ Consume

\* a child that reports exhaustion has delivered every source item -- and has just been told the end by the
\* source itself (like every itertools.tee child, it asks; nobody else's word is taken for it)
EndC == /\ Is("end")
        /\ ~fin[E.c] /\ recv[E.c] = Cfg.len /\ fetched = Cfg.len
        /\ visit[E.c] = "empty"
        /\ fin' = [fin EXCEPT ![E.c] = TRUE]
        /\ UNCHANGED <<recv, fetched, inSrc, srcClosed, lastF, visit>>
        /\ Consume

\* closing or cancelling a child is always possible and never fails
Closed == /\ (Is("closed") \/ Is("cancelled"))
          /\ ~fin[E.c]
          /\ fin' = [fin EXCEPT ![E.c] = TRUE]
          /\ UNCHANGED <<recv, fetched, inSrc, srcClosed, lastF, visit>>
          /\ Consume

\* the source raised while child c pulled it: that very exception reaches c's consumer
\* (it is not swallowed or replaced), c is finished, nobody else is disturbed
Failed == /\ Is("failed")
          /\ ~fin[E.c] /\ E.same
          /\ fin' = [fin EXCEPT ![E.c] = TRUE]
          /\ UNCHANGED <<recv, fetched, inSrc, srcClosed, lastF, visit>>
          /\ Consume

\* the source is closed exactly when the last child is done: once, and not before
SrcClose == /\ Is("srcclose")
            /\ srcClosed = 0 /\ \A c \in Child : fin[c]
            /\ srcClosed' = 1
            /\ UNCHANGED <<recv, fetched, inSrc, fin, lastF, visit>>
            /\ Consume

\* at rest (nobody is running): the source is closed iff every child is done
Quiesce == /\ Is("quiesce")
           /\ inSrc = {}
           /\ IF Cfg.closable THEN (\A c \in Child : fin[c]) <=> srcClosed = 1 ELSE srcClosed = 0
           /\ UNCHANGED <<recv, fetched, inSrc, srcClosed, fin, lastF, visit>>
           /\ Consume

\* retention: after garbage collection only items some live child has not yielded yet
\* may be alive (plus, per child, the item its generator frame fetched last)
Census == /\ Is("census")
          /\ \A j \in 1..Len(E.alive) :
                LET x == E.alive[j] IN
                \/ \E d \in Child : ~fin[d] /\ recv[d] < x
                \/ \E d \in Child : lastF[d] = x
          /\ UNCHANGED <<recv, fetched, inSrc, srcClosed, fin, lastF, visit>>
          /\ Consume

Next == Recv \/ Fetch \/ Enter \/ Leave \/ EndC \/ Closed \/ Failed \/ SrcClose \/ Quiesce \/ Census
Spec == Init /\ [][Next]_vars

\* verdict: print, for every trace that was not consumed completely, how far it matched
Rejected == {t \in 1..NT : TLCGet(Reg(t)) < Len(Traces[t].ev)}
Accepted == /\ PrintT(<<"VALIDATED", NT>>)
            /\ \A t \in Rejected : PrintT(<<"REJECTED", t, TLCGet(Reg(t))>>)
=============================================================================
