----------------------------- MODULE CachedProp -----------------------------
(***************************************************************************)
(* asyncstdlib.functools.cached_property (C12; the cached_property clause  *)
(* of C18).  The instance attribute slot holds nothing, a *placeholder*    *)
(* (_FutureCachedPropertyValue, which owns one lock made from the lock     *)
(* type) or a cached value.  One action = one task running to its next     *)
(* suspension (functools.py:91-126, 156-186):                              *)
(*                                                                         *)
(*  Access(t,i)   evaluate `inst_i.attr`: the slot content, or a fresh     *)
(*                placeholder installed by the descriptor                  *)
(*  Await(t)      `await obj`: a value returns at once; a placeholder      *)
(*                checks the slot (re-entering the descriptor if it was    *)
(*                deleted), follows whatever is there now, takes that      *)
(*                placeholder's lock or waits for it, re-checks, and runs  *)
(*                the getter up to its first suspension                    *)
(*  Grant(t)      a waiting task obtains the lock: re-check, follow, getter*)
(*  Tick(t)       the getter resumes; its last tick stores the value in    *)
(*                the slot (whatever the slot holds by then) and releases  *)
(*  Fail(t)       the getter raises instead      Cancel(t)  task cancelled  *)
(*  Del(i)        `del inst_i.attr`                                         *)
(***************************************************************************)
EXTENDS Integers, Sequences, FiniteSets, TLC, Json, CSV

CONSTANTS NTask, NInst, UseLock, GSusp, MaxDel, OpsPer, AllowFail, AllowCancel, ExitSusp, EdgeFile
Task == 1..NTask
Inst == 1..NInst
MaxPh == NTask * OpsPer + MaxDel + 2
Ph == 1..MaxPh

Absent == <<"absent", 0>>
PhV(p) == <<"ph", p>>
ValV(v) == <<"val", v>>

VARIABLES slot,     \* slot[i]: Absent | PhV(p) | ValV(run)
          nph,      \* placeholders created so far
          phInst,   \* phInst[p]: the instance placeholder p belongs to
          lockOf,   \* lockOf[p]: task holding p's lock, 0 if free
          runs,     \* getter runs started so far (run ids are the values)
          dels,
          pc,       \* "idle" | "holding" | "lockwait" | "ingetter" | "exiting" (lock.__aexit__ suspended,
                    \* ExitSusp = 1: the value is stored and the lock free already)
          obj,      \* obj[t]: the object task t holds / awaits (Absent if none)
          tph,      \* placeholder whose lock / getter the task is in
          rem, myrun,
          cap,      \* cap[t]: what the re-check under the lock found, kept across a suspending release
          got,      \* last value a task's await returned (0 none)
          left,     \* accesses the task may still make
          last
vars == <<slot, nph, phInst, lockOf, runs, dels, pc, obj, tph, rem, myrun, cap, got, left, last>>
View == <<slot, nph, phInst, lockOf, runs, dels, pc, obj, tph, rem, myrun, cap, got, left>>

Init == /\ slot = [i \in Inst |-> Absent] /\ nph = 0 /\ phInst = [p \in Ph |-> 0]
        /\ lockOf = [p \in Ph |-> 0] /\ runs = 0 /\ dels = 0
        /\ pc = [t \in Task |-> "idle"] /\ obj = [t \in Task |-> Absent]
        /\ tph = [t \in Task |-> 0] /\ rem = [t \in Task |-> 0] /\ myrun = [t \in Task |-> 0]
        /\ cap = [t \in Task |-> Absent]
        /\ got = [t \in Task |-> 0] /\ left = [t \in Task |-> OpsPer]
        /\ last = <<"init", 0, 0>>

\* `inst.attr`: instance dict first, else the descriptor installs a new placeholder
\* (functools.py:156-186).  Returns the state after the lookup.
Lookup(sl, n, pi, i) ==
  IF sl[i] = Absent
  THEN [slot |-> [sl EXCEPT ![i] = PhV(n + 1)], nph |-> n + 1, phInst |-> [pi EXCEPT ![n + 1] = i], o |-> PhV(n + 1)]
  ELSE [slot |-> sl, nph |-> n, phInst |-> pi, o |-> sl[i]]

Access(t, i) ==
  /\ pc[t] = "idle" /\ left[t] > 0 /\ nph < MaxPh
  /\ last' = <<"access", t, i>>
  /\ left' = [left EXCEPT ![t] = @ - 1]
  /\ LET r == Lookup(slot, nph, phInst, i) IN
     /\ slot' = r.slot /\ nph' = r.nph /\ phInst' = r.phInst
     /\ obj' = [obj EXCEPT ![t] = r.o]
     /\ pc' = [pc EXCEPT ![t] = "holding"]
  /\ UNCHANGED <<lockOf, runs, dels, tph, rem, myrun, got, cap>>

\* the await is over: the task has its value
Done(t, v) == /\ pc' = [pc EXCEPT ![t] = "idle"] /\ got' = [got EXCEPT ![t] = v]
              /\ obj' = [obj EXCEPT ![t] = Absent] /\ tph' = [tph EXCEPT ![t] = 0]

\* the getter of placeholder p (instance i) runs to completion at once (GSusp = 0) or
\* to its first suspension; lk is the lock table after acquiring p's lock
StartGetter(t, p, lk, sl) ==
  LET i == phInst'[p]  r == runs + 1 IN
  /\ runs' = r
  /\ IF GSusp = 0
     THEN /\ slot' = [sl EXCEPT ![i] = ValV(r)]           \* functools.py:125
          /\ lockOf' = [lk EXCEPT ![p] = 0]
          /\ IF UseLock /\ ExitSusp = 1
             THEN /\ pc' = [pc EXCEPT ![t] = "exiting"] /\ myrun' = [myrun EXCEPT ![t] = r]
                  /\ tph' = [tph EXCEPT ![t] = p] /\ UNCHANGED <<rem, got, obj>>
             ELSE Done(t, r) /\ UNCHANGED <<rem, myrun>>
     ELSE /\ slot' = sl /\ lockOf' = lk
          /\ pc' = [pc EXCEPT ![t] = "ingetter"]
          /\ tph' = [tph EXCEPT ![t] = p]
          /\ rem' = [rem EXCEPT ![t] = GSusp]
          /\ myrun' = [myrun EXCEPT ![t] = r]
          /\ UNCHANGED <<got, obj>>

\* _await_impl of placeholder p, which is what the slot holds right now: take its lock
\* (or wait), the re-check succeeds trivially, run the getter  [108-117]
Enter(t, p, lk, sl) ==
  IF UseLock /\ lk[p] # 0
  THEN /\ pc' = [pc EXCEPT ![t] = "lockwait"] /\ tph' = [tph EXCEPT ![t] = p]
       /\ slot' = sl /\ lockOf' = lk
       /\ UNCHANGED <<runs, rem, myrun, got, obj>>
  ELSE StartGetter(t, p, IF UseLock THEN [lk EXCEPT ![p] = t] ELSE lk, sl)

\* follow whatever the slot of instance i holds now (r = result of the lookup)
Follow(t, r, lk) ==
  /\ nph' = r.nph /\ phInst' = r.phInst
  /\ IF r.o[1] = "val"
     THEN /\ slot' = r.slot /\ lockOf' = lk /\ Done(t, r.o[2]) /\ UNCHANGED <<runs, rem, myrun>>
     ELSE Enter(t, r.o[2], lk, r.slot)

Await(t) ==
  /\ pc[t] = "holding" /\ nph < MaxPh
  /\ last' = <<"await", t, 0>>
  /\ IF obj[t][1] = "val"
     THEN /\ Done(t, obj[t][2]) /\ UNCHANGED <<slot, nph, phInst, lockOf, runs, rem, myrun>>
     ELSE LET p == obj[t][2]  r == Lookup(slot, nph, phInst, phInst[p]) IN Follow(t, r, lockOf)
  /\ UNCHANGED <<dels, left, cap>>

\* the lock of tph[t] became free: acquire, re-check the slot [111-117]; if it is no
\* longer this placeholder, release and follow what is there now [119-121]
Grant(t) ==
  /\ pc[t] = "lockwait" /\ lockOf[tph[t]] = 0 /\ nph < MaxPh
  /\ last' = <<"grant", t, 0>>
  /\ LET p == tph[t]  r == Lookup(slot, nph, phInst, phInst[p]) IN
     IF r.o = PhV(p)
     THEN /\ nph' = r.nph /\ phInst' = r.phInst
          /\ StartGetter(t, p, [lockOf EXCEPT ![p] = t], r.slot)
          /\ UNCHANGED cap
     ELSE IF ExitSusp = 1
     THEN \* leave `async with` (release, suspend); what was found is awaited afterwards
          /\ nph' = r.nph /\ phInst' = r.phInst /\ slot' = r.slot
          /\ pc' = [pc EXCEPT ![t] = "exitfollow"] /\ cap' = [cap EXCEPT ![t] = r.o]
          /\ UNCHANGED <<lockOf, runs, rem, myrun, got, obj, tph>>
     ELSE Follow(t, r, lockOf) /\ UNCHANGED cap
  /\ UNCHANGED <<dels, left>>

Tick(t) ==
  /\ pc[t] = "ingetter"
  /\ last' = <<"tick", t, 0>>
  /\ IF rem[t] > 1
     THEN /\ rem' = [rem EXCEPT ![t] = @ - 1]
          /\ UNCHANGED <<slot, nph, phInst, lockOf, runs, dels, pc, obj, tph, myrun, got, left, cap>>
     ELSE /\ slot' = [slot EXCEPT ![phInst[tph[t]]] = ValV(myrun[t])]     \* functools.py:125
          /\ lockOf' = IF UseLock THEN [lockOf EXCEPT ![tph[t]] = 0] ELSE lockOf
          /\ IF UseLock /\ ExitSusp = 1
             THEN /\ pc' = [pc EXCEPT ![t] = "exiting"]          \* suspended in lock.__aexit__
                  /\ UNCHANGED <<got, obj, tph, rem, myrun>>
             ELSE /\ Done(t, myrun[t])
                  /\ rem' = [rem EXCEPT ![t] = 0] /\ myrun' = [myrun EXCEPT ![t] = 0]
          /\ UNCHANGED <<nph, phInst, runs, dels, left, cap>>

\* lock.__aexit__ resumes: the await returns the value the getter produced
ExitStep(t) ==
  /\ pc[t] \in {"exiting", "exitfollow", "exitabort"}
  /\ last' = <<"exit", t, 0>>
  /\ CASE pc[t] = "exiting" ->
            /\ Done(t, myrun[t])
            /\ rem' = [rem EXCEPT ![t] = 0] /\ myrun' = [myrun EXCEPT ![t] = 0]
            /\ UNCHANGED <<slot, nph, phInst, lockOf, runs, cap>>
       [] pc[t] = "exitfollow" ->       \* `return await stored` with what the re-check had found
            /\ cap' = [cap EXCEPT ![t] = Absent]
            /\ IF cap[t][1] = "val"
               THEN /\ Done(t, cap[t][2]) /\ UNCHANGED <<slot, nph, phInst, lockOf, runs, rem, myrun>>
               ELSE LET q == cap[t][2]  r == Lookup(slot, nph, phInst, phInst[q]) IN Follow(t, r, lockOf)
       [] pc[t] = "exitabort" ->        \* the exception of the getter / the cancellation comes out
            /\ pc' = [pc EXCEPT ![t] = "idle"]
            /\ obj' = [obj EXCEPT ![t] = Absent] /\ tph' = [tph EXCEPT ![t] = 0]
            /\ rem' = [rem EXCEPT ![t] = 0] /\ myrun' = [myrun EXCEPT ![t] = 0]
            /\ got' = [got EXCEPT ![t] = 0]
            /\ UNCHANGED <<slot, nph, phInst, lockOf, runs, cap>>
  /\ UNCHANGED <<dels, left>>

\* the computation ends without a value: nothing is stored, the lock is released
Abort(t, how) ==
  /\ last' = <<how, t, 0>>
  /\ lockOf' = IF UseLock /\ pc[t] = "ingetter" THEN [lockOf EXCEPT ![tph[t]] = 0] ELSE lockOf
  /\ IF UseLock /\ ExitSusp = 1 /\ pc[t] = "ingetter"
     THEN /\ pc' = [pc EXCEPT ![t] = "exitabort"]         \* the exception passes through lock.__aexit__, which suspends
          /\ UNCHANGED <<obj, tph, rem, myrun, got>>
     ELSE /\ pc' = [pc EXCEPT ![t] = "idle"]
          /\ obj' = [obj EXCEPT ![t] = Absent] /\ tph' = [tph EXCEPT ![t] = 0]
          /\ rem' = [rem EXCEPT ![t] = 0] /\ myrun' = [myrun EXCEPT ![t] = 0]
          /\ got' = [got EXCEPT ![t] = 0]
  /\ UNCHANGED <<slot, nph, phInst, runs, dels, left, cap>>

Fail(t) == AllowFail /\ pc[t] = "ingetter" /\ rem[t] = 1 /\ Abort(t, "fail")
Cancel(t) == AllowCancel /\ pc[t] \in {"ingetter", "lockwait", "exiting", "exitfollow", "exitabort"} /\ Abort(t, "cancel")

Del(i) == /\ dels < MaxDel /\ slot[i] # Absent
          /\ last' = <<"del", 0, i>>
          /\ slot' = [slot EXCEPT ![i] = Absent] /\ dels' = dels + 1
          /\ UNCHANGED <<nph, phInst, lockOf, runs, pc, obj, tph, rem, myrun, got, left, cap>>

Next == (\E t \in Task : (\E i \in Inst : Access(t, i)) \/ Await(t) \/ Grant(t) \/ Tick(t) \/ ExitStep(t) \/ Fail(t) \/ Cancel(t))
        \/ \E i \in Inst : Del(i)
Spec == Init /\ [][Next]_vars

---------------------------------------------------------------------------
Running(p) == {t \in Task : pc[t] = "ingetter" /\ tph[t] = p}
\* with a lock: one getter per placeholder, hence (nothing deleted) per instance
OneGetterPerPlaceholder == UseLock => \A p \in Ph : Cardinality(Running(p)) <= 1
OneGetterPerInstance ==
  (UseLock /\ MaxDel = 0) =>
     \A i \in Inst : Cardinality({t \in Task : pc[t] = "ingetter" /\ phInst[tph[t]] = i}) <= 1
\* with a lock and nothing deleted, failing or cancelled: the getter runs at most once
\* per instance and everybody gets that one value
AtMostOnce == (UseLock /\ MaxDel = 0 /\ ~AllowFail /\ ~AllowCancel) => runs <= NInst
\* a value handed to a task is one some getter run produced
GotGenuine == \A t \in Task : got[t] \in 0..runs
\* values are per instance: a cached value was computed for that instance's placeholder
LockFreeAtRest == (\A t \in Task : pc[t] # "ingetter") => \A p \in Ph : lockOf[p] = 0
\* a lock is only held by the task running that placeholder's getter
LockHolder == \A p \in Ph : lockOf[p] # 0 => (pc[lockOf[p]] = "ingetter" /\ tph[lockOf[p]] = p)

\* progress: while somebody waits for a lock, runs a getter or leaves a lock, the system can take a step
\* without any user action (no deadlock; a waiter's lock is held only by somebody who is making progress)
Pending(t) == pc[t] \in {"lockwait", "ingetter", "exiting", "exitfollow", "exitabort"}
NoStuck == (\E t \in Task : Pending(t)) => \E t \in Task : ENABLED (Grant(t) \/ Tick(t) \/ ExitStep(t))

EmitEdge == EdgeFile = "" \/
  CSVWrite("%1$s", <<ToJson([f |-> [slot |-> slot, pc |-> pc, got |-> got, runs |-> runs, lk |-> lockOf, nph |-> nph, left |-> left, tph |-> tph, obj |-> obj, rem |-> rem, dels |-> dels, phInst |-> phInst, myrun |-> myrun, cap |-> cap],
                             a |-> last',
                             t |-> [slot |-> slot', pc |-> pc', got |-> got', runs |-> runs', lk |-> lockOf', nph |-> nph', left |-> left', tph |-> tph', obj |-> obj', rem |-> rem', dels |-> dels', phInst |-> phInst', myrun |-> myrun', cap |-> cap']])>>, EdgeFile)
=============================================================================
