--------------------------- MODULE ExitStackTrace ---------------------------
(* code -> spec for ExitStack.tla: random histories with more entries and more   *)
(* operations than the exhaustively explored ones, recorded from the real        *)
(* asyncstdlib.ExitStack (one event per registration / pop_all / start of an      *)
(* unwind / exit callable invoked with the exception it received / outcome), must *)
(* be behaviours of the specification.                                            *)
EXTENDS ExitStack, TLCExt, IOUtils

Traces == JsonDeserialize(IOEnv.TRACE_FILE)
NT == Len(Traces)
VARIABLES tid, l
tvars == <<vars, tid, l>>
Reg(t) == t + 10
Ev == Traces[tid].ev
E == Ev[l + 1]
Is(op) == l < Len(Ev) /\ E.op = op

TInit == Init /\ tid \in 1..NT /\ l = 0 /\ TLCSet(Reg(tid), 0)
Consume == l' = l + 1 /\ tid' = tid /\ TLCSet(Reg(tid), l + 1)

TStep == \/ Is("register") /\ Register(E.k, E.b) /\ nent' = E.e
         \/ Is("enterfail") /\ EnterFail
         \/ Is("popall") /\ PopAll
         \/ Is("begin") /\ Begin(E.which, E.x, E.lab)
         \/ Is("exit") /\ RunExit /\ last'[2] = E.e /\ last'[3] = E.seen
         \/ Is("finish") /\ Finish /\ last'[3] = E.label /\ last'[2] = E.id
TNext == TStep /\ Consume
Spec2 == TInit /\ [][TNext]_tvars

Rejected == {t \in 1..NT : TLCGet(Reg(t)) < Len(Traces[t].ev)}
Accepted == /\ PrintT(<<"VALIDATED", NT>>)
            /\ \A t \in Rejected : PrintT(<<"REJECTED", t, TLCGet(Reg(t))>>)
=============================================================================
