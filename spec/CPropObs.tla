------------------------------ MODULE CPropObs ------------------------------
(***************************************************************************)
(* What C12 demands of the observable events of a cached_property, for     *)
(* trace validation of recorded executions (TRACE_FILE: JSON array of      *)
(* {cfg: {tasks, insts, lock}, ev: [...]}).  Events:                        *)
(*  access(t,i)  task t evaluated inst_i.attr and now holds the result     *)
(*  gstart(r,i)  getter run r started for instance i;  gend(r,ok)          *)
(*  got(t,i,v)   t's await returned the value of run v                     *)
(*  err(t,same)  t's await raised (failing getter / cancellation)          *)
(*  del(i)       del inst_i.attr            quiesce(held)  nobody running  *)
(***************************************************************************)
EXTENDS Integers, Sequences, FiniteSets, TLC, TLCExt, Json, IOUtils

Traces == JsonDeserialize(IOEnv.TRACE_FILE)
NT == Len(Traces)

VARIABLES tid, l,
          cached,    \* cached[i]: run whose value is cached on instance i (0 = none)
          runInst,   \* runInst[r]: instance of run r          (sequence indexed by run id)
          runOk,     \* runOk[r]: run r returned a value
          running,   \* runs currently executing
          holds,     \* holds[t]: instance whose attribute t holds (0 = none)
          seen,      \* seen[t]: the value that was cached when t took the attribute (0 = none:
                     \*          t holds a placeholder)
          epoch,     \* epoch[i]: number of deletions of the attribute of instance i so far
          runEpoch,  \* runEpoch[r]: the epoch in which run r started
          runner,    \* runner[r]: the task whose await runs the getter
          mustFail,  \* mustFail[t]: the getter run by t's await failed -- the await has to raise
          since      \* since[t]: values that became cached for the held attribute since t took it
vars == <<tid, l, cached, runInst, runOk, running, holds, seen, epoch, runEpoch, runner, mustFail, since>>

Cfg == Traces[tid].cfg
Ev == Traces[tid].ev
E == Ev[l + 1]
Reg(t) == t + 10
Is(name) == l < Len(Ev) /\ E.e = name
Consume == l' = l + 1 /\ tid' = tid /\ TLCSet(Reg(tid), l + 1)

Init == /\ tid \in 1..NT /\ l = 0
        /\ cached = [i \in 1..Traces[tid].cfg.insts |-> 0]
        /\ runInst = <<>> /\ runOk = <<>> /\ running = {}
        /\ holds = [t \in 1..Traces[tid].cfg.tasks |-> 0]
        /\ seen = [t \in 1..Traces[tid].cfg.tasks |-> 0]
        /\ epoch = [i \in 1..Traces[tid].cfg.insts |-> 0] /\ runEpoch = <<>> /\ runner = <<>>
        /\ mustFail = [t \in 1..Traces[tid].cfg.tasks |-> FALSE]
        /\ since = [t \in 1..Traces[tid].cfg.tasks |-> {}]
        /\ TLCSet(Reg(tid), 0)

Access == /\ Is("access") /\ holds[E.t] = 0
          /\ holds' = [holds EXCEPT ![E.t] = E.i]
          /\ seen' = [seen EXCEPT ![E.t] = cached[E.i]]
          /\ since' = [since EXCEPT ![E.t] = {}]
          /\ UNCHANGED <<cached, runInst, runOk, running, epoch, runEpoch, runner, mustFail>> /\ Consume

\* the getter runs only when no value is cached; with a lock never two runs at once for the
\* same instance and the same epoch (a deletion starts a new epoch: a run that was already
\* under way may overlap with the recomputation, but "at most once per cached value")
GStart == /\ Is("gstart") /\ E.r = Len(runInst) + 1
          /\ cached[E.i] = 0
          /\ Cfg.lock => \A r \in running : ~(runInst[r] = E.i /\ runEpoch[r] = epoch[E.i])
          /\ runInst' = Append(runInst, E.i) /\ runOk' = Append(runOk, FALSE)
          /\ runEpoch' = Append(runEpoch, epoch[E.i]) /\ runner' = Append(runner, E.t)
          /\ running' = running \cup {E.r}
          /\ UNCHANGED <<cached, holds, seen, epoch, mustFail, since>> /\ Consume

\* a run that returns caches its value; a failed or cancelled one caches nothing
GEnd == /\ Is("gend") /\ E.r \in running
        /\ running' = running \ {E.r}
        /\ runOk' = [runOk EXCEPT ![E.r] = E.ok]
        /\ cached' = IF E.ok THEN [cached EXCEPT ![runInst[E.r]] = E.r] ELSE cached
        /\ mustFail' = IF E.ok \/ runner[E.r] = 0 THEN mustFail ELSE [mustFail EXCEPT ![runner[E.r]] = TRUE]
        /\ since' = IF E.ok THEN [t \in DOMAIN since |-> IF holds[t] = runInst[E.r] THEN since[t] \cup {E.r} ELSE since[t]] ELSE since
        /\ UNCHANGED <<runInst, holds, seen, epoch, runEpoch, runner>> /\ Consume

\* an await returns a value some getter run of that instance returned: the value that
\* was cached when the attribute was taken, else (a placeholder was taken) the value
\* cached when the await completes
Got == /\ Is("got") /\ holds[E.t] = E.i /\ ~mustFail[E.t]     \* a failed getter surfaces to its awaiter
       /\ E.v \in 1..Len(runInst) /\ runInst[E.v] = E.i /\ runOk[E.v]
       /\ IF seen[E.t] # 0 THEN E.v = seen[E.t]
          ELSE \/ E.v = cached[E.i]
               \* a lock whose release suspends lets a deletion slip in between the moment the value
               \* was stored / seen under the lock and the moment the await returns it
               \/ Cfg.exitsusp /\ (runner[E.v] = E.t \/ E.v \in since[E.t])
       /\ holds' = [holds EXCEPT ![E.t] = 0]
       /\ UNCHANGED <<cached, runInst, runOk, running, seen, epoch, runEpoch, runner, mustFail, since>> /\ Consume

Err == /\ Is("err") /\ holds[E.t] # 0 /\ E.same
       /\ holds' = [holds EXCEPT ![E.t] = 0]
       /\ mustFail' = [mustFail EXCEPT ![E.t] = FALSE]
       /\ UNCHANGED <<cached, runInst, runOk, running, seen, epoch, runEpoch, runner, since>> /\ Consume

DelE == /\ Is("del")
        /\ cached' = [cached EXCEPT ![E.i] = 0]
        /\ epoch' = [epoch EXCEPT ![E.i] = @ + 1]
        /\ UNCHANGED <<runInst, runOk, running, holds, seen, runEpoch, runner, mustFail, since>> /\ Consume

\* at rest no lock is held and nothing is computing; the attribute shows the cached value
Quiesce == /\ Is("quiesce") /\ running = {} /\ E.held = 0
           /\ \A i \in DOMAIN cached : E.slots[i] = cached[i]
           /\ UNCHANGED <<cached, runInst, runOk, running, holds, seen, epoch, runEpoch, runner, mustFail, since>> /\ Consume

Next == Access \/ GStart \/ GEnd \/ Got \/ Err \/ DelE \/ Quiesce
Spec == Init /\ [][Next]_vars

Rejected == {t \in 1..NT : TLCGet(Reg(t)) < Len(Traces[t].ev)}
Accepted == /\ PrintT(<<"VALIDATED", NT>>)
            /\ \A t \in Rejected : PrintT(<<"REJECTED", t, TLCGet(Reg(t))>>)
=============================================================================
