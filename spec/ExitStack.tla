------------------------------ MODULE ExitStack ------------------------------
(***************************************************************************)
(* asyncstdlib.contextlib.ExitStack (C14; ExitStack clause of C18).        *)
(*                                                                         *)
(* Entries are registered exits: kind "exit" (an entered sync/async        *)
(* context manager, a pushed __aexit__-style callable or pushed manager)   *)
(* or "cb" (callback with arguments: receives nothing, cannot suppress).   *)
(* Behaviour of an exit when called with the exception in flight:          *)
(*   falsy | truthy | raise (a new exception) | raisewh (a new exception   *)
(*   only while one is in flight) | reraise (the very exception received)  *)
(*   | push (registers one more callback on the stack being unwound: it    *)
(*   runs next, in the same unwind -- callbacks are popped one at a time)  *)
(*   | popall (calls pop_all() on the stack being unwound: the exits not   *)
(*   yet run now belong to the new stack and this unwind is over; if a new *)
(*   stack exists already the exit just returns)                           *)
(*                                                                         *)
(* History actions: Register, EnterFail (enter_context whose enter raises: *)
(* nothing registered), PopAll, Leave(outcome) / Aclose = start an unwind, *)
(* RunExit = one exit callable runs (a step of its own: it may suspend,    *)
(* and a cancellation landing there is the behaviour "raise"), Finish.     *)
(* The unwind loop is transcribed from __aexit__ (contextlib.py:442-470)   *)
(* with its suppress/reraise flags; TLC checks it equal to the recursive   *)
(* definition of nested with-statements (NestedEq) and that every exit     *)
(* runs at most once overall (Once) -- the property demands that entries   *)
(* leave the stack when they have run.                                     *)
(***************************************************************************)
EXTENDS Integers, Sequences, FiniteSets, TLC, Json, CSV

CONSTANTS MaxEntries, MaxOps, EdgeFile

Kinds == {"exit", "cb"}
Behs == {"falsy", "truthy", "raise", "raisewh", "reraise", "push", "popall"}
BlockExc == 100                 \* the exception the with-block raised
ExcOf(e) == 200 + e             \* the new exception raised by entry e

VARIABLES main,     \* entries of the stack the block was entered with (ids)
          moved,    \* entries transferred by pop_all to the new stack
          popped,   \* pop_all has been called (the new stack exists)
          kind, beh,\* per entry id
          nent,     \* entries created
          ran,      \* ran[e]: how often entry e's exit has been called
          got,      \* got[e]: the exception entry e received (last call)
          unw,      \* unwind in progress: [which, todo, exc, recv, sup, rer] or none
          outcome,  \* result of the last completed unwind
          nops, last
vars == <<main, moved, popped, kind, beh, nent, ran, got, unw, outcome, nops, last>>
View == <<main, moved, popped, kind, beh, nent, ran, got, unw, outcome, nops>>

Ent == 1..(2 * MaxEntries)      \* registered entries plus the callbacks pushed during unwinds
NoUnw == [which |-> "none", todo |-> <<>>, all |-> <<>>, exc |-> 0, recv |-> 0, sup |-> FALSE, rer |-> FALSE]

Init == /\ main = <<>> /\ moved = <<>> /\ popped = FALSE /\ nent = 0
        /\ kind = [e \in Ent |-> "exit"] /\ beh = [e \in Ent |-> "falsy"]
        /\ ran = [e \in Ent |-> 0] /\ got = [e \in Ent |-> -1]
        /\ unw = NoUnw /\ outcome = <<"-", 0>> /\ nops = 0 /\ last = <<"init", 0, "-", "-">>

Idle == unw.which = "none"
Step == nops < MaxOps /\ nops' = nops + 1

\* enter_context / push / callback: the exit is registered on the original stack
Register(k, b) ==
  /\ Idle /\ Step /\ nent < MaxEntries
  /\ nent' = nent + 1
  /\ kind' = [kind EXCEPT ![nent + 1] = k] /\ beh' = [beh EXCEPT ![nent + 1] = b]
  /\ main' = Append(main, nent + 1)
  /\ last' = <<"register", nent + 1, k, b>>
  /\ UNCHANGED <<moved, popped, ran, got, unw, outcome>>

\* enter_context(cm) whose __aenter__ raises: cm is not registered and never exited
EnterFail ==
  /\ Idle /\ Step
  /\ last' = <<"enterfail", 0, "-", "-">>
  /\ UNCHANGED <<main, moved, popped, kind, beh, nent, ran, got, unw, outcome>>

\* pop_all: the new stack owns everything registered so far
PopAll ==
  /\ Idle /\ Step /\ ~popped
  /\ moved' = main /\ main' = <<>> /\ popped' = TRUE
  /\ last' = <<"popall", 0, "-", "-">>
  /\ UNCHANGED <<kind, beh, nent, ran, got, unw, outcome>>

\* leaving the block (x = 0 normally, BlockExc if it raised) or aclose() starts an unwind
\* of `which` ("main" | "moved"); the entries leave the stack as they are taken
Begin(which, x, lab) ==
  /\ Idle /\ Step /\ (which = "moved" => popped)
  /\ unw' = [which |-> which, todo |-> IF which = "main" THEN main ELSE moved,
             all |-> IF which = "main" THEN main ELSE moved,
             exc |-> x, recv |-> x, sup |-> FALSE, rer |-> FALSE]
  /\ IF which = "main" THEN main' = <<>> /\ moved' = moved ELSE moved' = <<>> /\ main' = main
  /\ last' = <<lab, x, which, "-">>
  /\ UNCHANGED <<popped, kind, beh, nent, ran, got, outcome>>

\* one exit callable runs: the last registered of those still to do   [450-460]
RunExit ==
  /\ ~Idle /\ unw.todo # <<>>
  /\ LET e == unw.todo[Len(unw.todo)]
         x == unw.exc
         seen == IF kind[e] = "cb" THEN 0 ELSE x           \* callbacks do not get the exception
         b == beh[e]
         raises == b = "raise" \/ (b = "raisewh" /\ seen # 0) \/ (b = "reraise" /\ seen # 0)
         newx == IF b = "reraise" THEN seen ELSE ExcOf(e)
         truthy == b = "truthy" /\ kind[e] # "cb"
         rest == SubSeq(unw.todo, 1, Len(unw.todo) - 1)
         pop == b = "popall" /\ unw.which = "main" /\ ~popped    \* pop_all() from inside the unwind
         e2 == nent + 1                                     \* the callback a "push" exit registers
         pos == CHOOSE j \in 1..Len(unw.all) : unw.all[j] = e IN
     /\ ran' = [ran EXCEPT ![e] = @ + 1]
     /\ got' = [got EXCEPT ![e] = seen]
     /\ IF b = "push"
        THEN /\ nent' = e2
             /\ kind' = [kind EXCEPT ![e2] = "cb"] /\ beh' = [beh EXCEPT ![e2] = "falsy"]
        ELSE UNCHANGED <<nent, kind, beh>>
     /\ moved' = IF pop THEN rest ELSE moved
     /\ popped' = (popped \/ pop)
     /\ unw' = [unw EXCEPT !.todo = IF b = "push" THEN Append(rest, e2) ELSE IF pop THEN <<>> ELSE rest,
                           !.all = IF b = "push"
                                   THEN SubSeq(unw.all, 1, pos - 1) \o <<e2>> \o SubSeq(unw.all, pos, Len(unw.all))
                                   ELSE IF pop THEN SubSeq(unw.all, pos, Len(unw.all))   \* what this unwind did run
                                   ELSE unw.all,
                           !.exc = IF raises THEN newx ELSE IF truthy THEN 0 ELSE x,
                           !.sup = IF raises THEN unw.sup ELSE IF truthy THEN TRUE ELSE unw.sup,
                           !.rer = IF raises THEN TRUE ELSE IF truthy THEN FALSE ELSE unw.rer]
     /\ last' = <<"exit", e, IF seen = 0 THEN "none" ELSE IF seen = BlockExc THEN "block" ELSE "new", "-">>
  /\ UNCHANGED <<main, outcome, nops>>

\* the loop is over: raise the exception in flight, or report suppression  [461-470]
ResultOf(u) ==
  IF u.rer /\ u.exc # 0 THEN (IF u.exc = u.recv THEN <<"same", u.exc>> ELSE <<"new", u.exc>>)
  ELSE IF u.recv # 0 /\ u.sup THEN <<"suppressed", 0>>
  ELSE IF u.recv # 0 THEN <<"same", u.recv>> ELSE <<"none", 0>>
Finish ==
  /\ ~Idle /\ unw.todo = <<>>
  /\ outcome' = ResultOf(unw)
  /\ unw' = NoUnw
  /\ last' = <<"finish", ResultOf(unw)[2], ResultOf(unw)[1], "-">>
  /\ UNCHANGED <<main, moved, popped, kind, beh, nent, ran, got, nops>>

Next == \/ \E k \in Kinds, b \in Behs : Register(k, b)
        \/ EnterFail \/ PopAll
        \/ Begin("main", 0, "leave") \/ Begin("main", BlockExc, "leave") \/ Begin("main", 0, "aclose")
        \/ Begin("moved", 0, "aclose2") \/ Begin("moved", BlockExc, "leave2")
        \/ RunExit \/ Finish
Spec == Init /\ [][Next]_vars

---------------------------------------------------------------------------
\* nested with-statements, recursively: the innermost (last registered) exit first
AfterExit(e, x) ==
  LET seen == IF kind[e] = "cb" THEN 0 ELSE x IN
  CASE beh[e] = "falsy" -> x
    [] beh[e] = "truthy" -> IF kind[e] = "cb" THEN x ELSE 0
    [] beh[e] = "raise" -> ExcOf(e)
    [] beh[e] = "raisewh" -> IF seen # 0 THEN ExcOf(e) ELSE x
    [] beh[e] = "reraise" -> x
    [] beh[e] = "push" -> x
    [] beh[e] = "popall" -> x
RECURSIVE Nested(_, _)
Nested(stack, x) == IF stack = <<>> THEN x
                    ELSE Nested(SubSeq(stack, 1, Len(stack) - 1), AfterExit(stack[Len(stack)], x))
NestedOutcome(stack, x) ==
  LET y == Nested(stack, x) IN
  IF y = 0 THEN (IF x # 0 THEN <<"suppressed", 0>> ELSE <<"none", 0>>) ELSE IF y = x THEN <<"same", y>> ELSE <<"new", y>>

\* the loop with its flags computes what nested with-statements would
NestedEq == (~Idle /\ unw.todo = <<>>) => ResultOf(unw) = NestedOutcome(unw.all, unw.recv)
Once == \A e \in Ent : ran[e] <= 1
\* nothing runs on the original stack after pop_all; a failed enter is never exited
OnlyOwner == \A e \in Ent : ran[e] > 0 => e <= nent

EmitEdge == EdgeFile = "" \/
  CSVWrite("%1$s", <<ToJson([f |-> [main |-> main, moved |-> moved, popped |-> popped, kind |-> kind, beh |-> beh, nent |-> nent, ran |-> ran, got |-> got, unw |-> unw, out |-> outcome, n |-> nops],
                             a |-> last',
                             t |-> [main |-> main', moved |-> moved', popped |-> popped', kind |-> kind', beh |-> beh', nent |-> nent', ran |-> ran', got |-> got', unw |-> unw', out |-> outcome', n |-> nops']])>>, EdgeFile)
=============================================================================
