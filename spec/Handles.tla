------------------------------- MODULE Handles -------------------------------
(***************************************************************************)
(* borrow() and scoped_iter() (C07, C08): handles over one underlying      *)
(* iterator U [asynctools.py:27-197].  A handle wraps its parent (U = 0 or *)
(* another handle) in a private generator; what differs is who may end it: *)
(*   "borrow"  aclose() ends the handle (never its parent)                 *)
(*   "scope"   aclose() is a no-op; leaving the `async with` block ends    *)
(*             the handle and then calls parent.aclose() -- which closes   *)
(*             U if the scope is outermost, ends a borrowed parent, and    *)
(*             does nothing to an enclosing scope's handle                 *)
(* Actions: Borrow(p), EnterScope(p), ExitScope (innermost scope first; by *)
(* fall-through, exception or cancellation alike), Next(h) (h = 0: the     *)
(* owner advances U directly), Aclose(h) (by the user, through             *)
(* iter(h).aclose(), or by a tool that closes its input), Tool(h, j, over) *)
(* (a library tool takes j items from h, pulling `over` more, then closes  *)
(* its input), Send(h) (asend forwarded to U while the handle is open).    *)
(***************************************************************************)
EXTENDS Naturals, Sequences, FiniteSets, TLC, Json, CSV

CONSTANTS DataLen, MaxHandles, MaxOps, AllowScope, AllowBorrow, USend, EdgeFile

H == 1..MaxHandles

VARIABLES upos,     \* items handed out by U
          ustop,    \* end-of-data detections seen by U
          uclosed,  \* aclose() calls seen by U
          nh,       \* handles created
          kind,     \* kind[h]: "borrow" | "scope"
          par,      \* par[h]: 0 (U) or the handle it wraps
          alive,    \* alive[h]: the handle's generator has not ended
          inblock,  \* inblock[h]: the `async with` block of scope handle h has not been left yet
          shut,     \* shut[h]: the handle was ended explicitly (aclose / a closing tool / leaving its
                    \*          scope): only then are asend/athrow cut off from the underlying iterator
          nops, last
vars == <<upos, ustop, uclosed, nh, kind, par, alive, inblock, shut, nops, last>>
View == <<upos, ustop, uclosed, nh, kind, par, alive, inblock, shut, nops>>

Init == /\ upos = 0 /\ ustop = 0 /\ uclosed = 0 /\ nh = 0
        /\ kind = [h \in H |-> "borrow"] /\ par = [h \in H |-> 0] /\ alive = [h \in H |-> FALSE]
        /\ shut = [h \in H |-> FALSE] /\ inblock = [h \in H |-> FALSE]
        /\ nops = 0 /\ last = <<"init", 0, 0, "-">>

Step == nops < MaxOps /\ nops' = nops + 1
Exists(h) == h = 0 \/ h \in 1..nh
\* the chain from h up to U is intact (U itself: not closed)
RECURSIVE Open(_)
Open(h) == IF h = 0 THEN uclosed = 0 ELSE alive[h] /\ Open(par[h])
\* scopes are left innermost first
OpenScopes == {h \in 1..nh : kind[h] = "scope" /\ inblock[h]}
Innermost == CHOOSE h \in OpenScopes : \A g \in OpenScopes : g <= h

New(k, p) ==
  /\ Step /\ nh < MaxHandles /\ Exists(p)
  /\ nh' = nh + 1
  /\ kind' = [kind EXCEPT ![nh + 1] = k] /\ par' = [par EXCEPT ![nh + 1] = p]
  /\ alive' = [alive EXCEPT ![nh + 1] = TRUE]
  /\ inblock' = [inblock EXCEPT ![nh + 1] = (k = "scope")]
  /\ last' = <<k, nh + 1, p, "-">>
  /\ UNCHANGED <<upos, ustop, uclosed, shut>>

Borrow(p) == AllowBorrow /\ New("borrow", p)
\* scopes nest: a new scope wraps U, a borrowed handle, or the innermost scope's handle
EnterScope(p) == /\ AllowScope /\ (OpenScopes # {} => p = Innermost) /\ (p = 0 => uclosed = 0) /\ New("scope", p)

\* one pull through h: ends the handles whose generator finds its source ended
\* returns [item (0 = stop), upos, ustop, alive]
Pull(h, up, us, al) ==
  LET RECURSIVE Chain(_)
      Chain(x) == IF x = 0 THEN <<>> ELSE <<x>> \o Chain(par[x])     \* h, parent, ... (U excluded)
      ch == Chain(h)
      \* the first handle on the way up that has already ended stops the pull there
      dead == {i \in 1..Len(ch) : ~al[ch[i]]}
      cut == IF dead = {} THEN 0 ELSE CHOOSE i \in dead : \A j \in dead : i <= j IN
  IF cut # 0
  THEN \* everything below the dead handle ends now (their generators see the end)
       [item |-> 0, upos |-> up, ustop |-> us,
        alive |-> [x \in H |-> IF \E i \in 1..cut : ch[i] = x THEN FALSE ELSE al[x]]]
  ELSE IF uclosed > 0 \/ up >= DataLen
  THEN [item |-> 0, upos |-> up, ustop |-> us + 1,
        alive |-> [x \in H |-> IF \E i \in 1..Len(ch) : ch[i] = x THEN FALSE ELSE al[x]]]
  ELSE [item |-> up + 1, upos |-> up + 1, ustop |-> us, alive |-> al]

Next(h) ==
  /\ Step /\ Exists(h)
  /\ LET r == Pull(h, upos, ustop, alive) IN
     /\ upos' = r.upos /\ ustop' = r.ustop /\ alive' = r.alive
     /\ last' = <<"next", h, r.item, "-">>
  /\ UNCHANGED <<uclosed, nh, kind, par, shut, inblock>>

\* aclose() on a handle: ends a borrowed handle, does nothing to a scoped one
Aclose(h) ==
  /\ Step /\ h \in 1..nh
  /\ alive' = IF kind[h] = "borrow" THEN [alive EXCEPT ![h] = FALSE] ELSE alive
  /\ shut' = IF kind[h] = "borrow" THEN [shut EXCEPT ![h] = TRUE] ELSE shut
  /\ last' = <<"aclose", h, 0, "-">>
  /\ UNCHANGED <<upos, ustop, uclosed, nh, kind, par, inblock>>

\* a library tool takes j items from h, pulls `over` more that it does not hand out, and
\* closes its input when it is closed (tools own what they are given)
RECURSIVE Pulls(_, _, _, _, _)
Pulls(h, n, up, us, al) ==
  IF n = 0 THEN [got |-> <<>>, upos |-> up, ustop |-> us, alive |-> al]
  ELSE LET r == Pull(h, up, us, al) IN
       IF r.item = 0 THEN [got |-> <<>>, upos |-> r.upos, ustop |-> r.ustop, alive |-> r.alive]
       ELSE LET rest == Pulls(h, n - 1, r.upos, r.ustop, r.alive) IN
            [got |-> <<r.item>> \o rest.got, upos |-> rest.upos, ustop |-> rest.ustop, alive |-> rest.alive]
Tool(h, j, over) ==
  /\ Step /\ h \in 1..nh
  /\ LET r == Pulls(h, j + over, upos, ustop, alive) IN
     /\ upos' = r.upos /\ ustop' = r.ustop
     /\ alive' = IF kind[h] = "borrow" THEN [r.alive EXCEPT ![h] = FALSE] ELSE r.alive
     /\ shut' = IF kind[h] = "borrow" THEN [shut EXCEPT ![h] = TRUE] ELSE shut
     /\ last' = <<"tool", h, j, IF over = 0 THEN "islice" ELSE "zip">>
  /\ UNCHANGED <<uclosed, nh, kind, par, inblock>>

\* asend() of an open handle goes to U directly (U is an async generator: it advances)
Send(h) ==
  /\ USend /\ Step /\ h \in 1..nh /\ par[h] = 0
  /\ IF ~shut[h] /\ uclosed = 0 /\ upos < DataLen
     THEN /\ upos' = upos + 1 /\ last' = <<"send", h, upos + 1, "-">> /\ UNCHANGED ustop
     ELSE IF ~shut[h]
     THEN /\ ustop' = ustop + 1 /\ last' = <<"send", h, 0, "-">> /\ UNCHANGED upos
     ELSE /\ last' = <<"send", h, 0, "-">> /\ UNCHANGED <<upos, ustop>>    \* cut off: U sees nothing
  /\ UNCHANGED <<uclosed, nh, kind, par, alive, shut, inblock>>

\* leaving the innermost `async with scoped_iter(...)` block (normally, by exception or by
\* cancellation): the handle ends; then parent.aclose()
ExitScope(how) ==
  /\ Step /\ OpenScopes # {}
  /\ LET h == Innermost  p == par[h] IN
     /\ alive' = [x \in H |-> IF x = h THEN FALSE
                              ELSE IF x = p /\ kind[p] = "borrow" THEN FALSE ELSE alive[x]]
     /\ uclosed' = IF p = 0 THEN uclosed + 1 ELSE uclosed
     /\ shut' = [x \in H |-> shut[x] \/ x = h \/ (x = p /\ kind[p] = "borrow")]
     /\ inblock' = [inblock EXCEPT ![h] = FALSE]
     /\ last' = <<"exit", h, 0, how>>
  /\ UNCHANGED <<upos, ustop, nh, kind, par>>

Next_ == \/ \E p \in 0..MaxHandles : Borrow(p) \/ EnterScope(p)
         \/ \E h \in 0..MaxHandles : Next(h)
         \/ \E h \in H : Aclose(h) \/ Send(h) \/ \E j \in 0..2 : Tool(h, j, 0) \/ Tool(h, j, 1)
         \/ \E how \in {"normal", "raise", "cancel"} : ExitScope(how)
Spec == Init /\ [][Next_]_vars

---------------------------------------------------------------------------
\* C07: nothing done with borrowed handles ever closes the underlying iterator
BorrowNeverCloses == (~AllowScope) => uclosed = 0
\* C08: nothing inside the block closes U; the outermost exit closes it exactly once
ScopeClosesOnce ==
  LET outer == {h \in 1..nh : kind[h] = "scope" /\ par[h] = 0} IN
  uclosed = Cardinality({h \in outer : ~alive[h] /\ \A g \in OpenScopes : g # h}) \/ uclosed <= Cardinality(outer)
InsideBlockOpen == (\E h \in OpenScopes : par[h] = 0) => uclosed = 0
\* items leave U in order, each once (upos only ever grows by one per delivered item)
InOrder == upos <= DataLen
\* a handle that ended stays ended and delivers nothing (by construction of Pull)

EmitEdge == EdgeFile = "" \/
  CSVWrite("%1$s", <<ToJson([f |-> [up |-> upos, us |-> ustop, uc |-> uclosed, nh |-> nh, kind |-> kind, par |-> par, alive |-> alive, shut |-> shut, ib |-> inblock, n |-> nops],
                             a |-> last',
                             t |-> [up |-> upos', us |-> ustop', uc |-> uclosed', nh |-> nh', kind |-> kind', par |-> par', alive |-> alive', shut |-> shut', ib |-> inblock', n |-> nops']])>>, EdgeFile)
=============================================================================
