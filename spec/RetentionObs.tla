---------------------------- MODULE RetentionObs ----------------------------
(***************************************************************************)
(* C20 as an observable specification: after the consumer has dropped what *)
(* it received, the number of source items a streaming tool or single-pass *)
(* aggregation keeps alive is bounded by the tool's documented window plus *)
(* a small constant per source -- however many items have passed through.  *)
(* Trace validation of recorded censuses (weak references counted after a  *)
(* garbage collection at consumer steps):                                  *)
(*   {cfg: {tool, param, nsrc}, ev: [ {passed, alive} ... ]}                 *)
(***************************************************************************)
EXTENDS Integers, Sequences, TLC, TLCExt, Json, IOUtils

Traces == JsonDeserialize(IOEnv.TRACE_FILE)
NT == Len(Traces)
VARIABLES tid, l, passed
vars == <<tid, l, passed>>
Cfg == Traces[tid].cfg
Ev == Traces[tid].ev
E == Ev[l + 1]
Reg(t) == t + 10

\* the documented window of each tool (items it must hold by design)
Window(tool, param, nsrc) ==
  CASE tool = "batched" -> param                      \* the batch being filled
    [] tool \in {"nlargest", "nsmallest"} -> param    \* the n best so far
    [] tool = "merge" -> nsrc                         \* one head per source
    [] tool = "pairwise" -> 1                         \* the previous item
    [] tool = "groupby" -> 1                          \* the look-ahead item
    [] tool \in {"accumulate", "reduce", "sum", "min", "max"} -> 1   \* the running value / best
    [] tool = "zip_longest" -> 0
    [] OTHER -> 0
\* a frame may pin the item it handled last, per source; plus the item in transit
Slack(nsrc) == 2 * nsrc + 2

Init == tid \in 1..NT /\ l = 0 /\ passed = 0 /\ TLCSet(Reg(tid), 0)

Census == /\ l < Len(Ev)
          /\ E.passed >= passed                       \* censuses are taken as the stream advances
          /\ E.alive <= Window(Cfg.tool, Cfg.param, Cfg.nsrc) + Slack(Cfg.nsrc)
          /\ passed' = E.passed
          /\ l' = l + 1 /\ tid' = tid /\ TLCSet(Reg(tid), l + 1)
Next == Census
Spec == Init /\ [][Next]_vars

Rejected == {t \in 1..NT : TLCGet(Reg(t)) < Len(Traces[t].ev)}
Accepted == /\ PrintT(<<"VALIDATED", NT>>)
            /\ \A t \in Rejected : PrintT(<<"REJECTED", t, TLCGet(Reg(t))>>)
=============================================================================
