-------------------------- MODULE ToolMachineTrace --------------------------
(***************************************************************************)
(* code -> spec for the ToolMachine: executions of the real asyncstdlib    *)
(* tools on inputs and parameters BEYOND the exhaustively enumerated       *)
(* bounds (longer sources, more sources, larger slice/batch parameters,    *)
(* random consumer budgets and single faults) are recorded as event logs   *)
(* and must be behaviours of the specification.  The machine carries its   *)
(* log, so the trace spec is simply Next constrained by                    *)
(*   Matches: every log entry the step appends that the projection names   *)
(*            equals the recorded entry at the same position of the        *)
(*            projected log                                                *)
(* Proj = "all" compares every event (C05: laziness; C06 with faults);     *)
(* Proj = "items" only consumer steps, yields and the ending (C01): pulls  *)
(* and calls become silent steps of the same deterministic machine.        *)
(***************************************************************************)
EXTENDS ToolMachine, TLCExt, IOUtils

CONSTANT Proj

Traces == JsonDeserialize(IOEnv.TRACE_FILE)
NT == Len(Traces)
VARIABLES tid, seen     \* seen: projected events matched so far
tvars == <<vars, tid, seen>>
Reg(t) == t + 10
Rec == Traces[tid].log

Named(e) == Proj = "all" \/ e.ev \in {"next", "yield", "end", "raise", "return", "close"}

TInit == /\ tid \in 1..NT
         /\ cfg = Traces[tid].cfg
         /\ st = [pc |-> "init"]
         /\ pos = [i \in 0..Len(Traces[tid].cfg.data) |-> 0]
         /\ sst = [i \in 0..Len(Traces[tid].cfg.data) |-> "new"]
         /\ log = <<>> /\ phase = "consumer" /\ reply = [k |-> "none"]
         /\ nnext = 0 /\ nuse = 0 /\ fault = 0
         /\ seen = 0 /\ TLCSet(Reg(tid), 0)

\* the entries this step appended
NewEntries == SubSeq(log', Len(log) + 1, Len(log'))
NamedNew == SelectSeq(NewEntries, Named)

TNext == /\ Next
         /\ seen + Len(NamedNew) <= Len(Rec)
         /\ \A j \in 1..Len(NamedNew) : NamedNew[j] = Rec[seen + j]
         /\ seen' = seen + Len(NamedNew) /\ tid' = tid
         /\ TLCSet(Reg(tid), seen + Len(NamedNew))
Spec2 == TInit /\ [][TNext]_tvars

Rejected == {t \in 1..NT : TLCGet(Reg(t)) < Len(Traces[t].log)}
Accepted == /\ PrintT(<<"VALIDATED", NT>>)
            /\ \A t \in Rejected : PrintT(<<"REJECTED", t, TLCGet(Reg(t))>>)
=============================================================================
