"""LruConc engine (C11): lru_cache under overlapping calls, failures and cancellation.

spec -> code : every transition of spec/LruConc.tla is replayed into the real cache with
               hand-driven tasks (cache_info and task states compared after each step, then
               drained and probed).
code -> spec : the observable events of all drifted replays, a sample of the others and of
               random schedules beyond the bounds are validated by TLC against spec/LruObs.tla.
"""
from __future__ import annotations

import multiprocessing as mp
import os
import random

from . import tm
from .driver import Accounting, Suspend, Task
from .graph import build_paths, stream_replays
from .instruments import Cancelled, InjectedBaseError, InjectedError
from .report import Verdict
from .tlc import MachineryError, read_ndjson, run_tlc
from .tracecheck import validate


class LruSys:
    def __init__(self, L, ntask, nkey, maxsize, fnsusp):
        self.ntask, self.nkey, self.maxsize, self.fnsusp = ntask, nkey, maxsize, fnsusp
        self.acct = Accounting()
        self.trace = []
        self.current = 0
        self.ninv = 0
        self.fail_task = 0
        self.fail_exc = {}
        self.task = {t: None for t in range(1, ntask + 1)}
        self.tkey = {t: 0 for t in range(1, ntask + 1)}
        self.pc = {t: "idle" for t in range(1, ntask + 1)}
        sys_ = self

        async def fn(k):
            t = sys_.current
            sys_.ninv += 1
            i = sys_.ninv
            sys_.ev(e="invoke", t=t, k=k, i=i)
            for j in range(sys_.fnsusp):
                await Suspend(sys_.acct, ("fn", t, j))
            if sys_.fail_task and sys_.fail_task == sys_.current == t:
                sys_.fail_task = 0
                sys_.nfail = getattr(sys_, "nfail", 0) + 1
                sys_.fail_exc[t] = (InjectedBaseError if sys_.nfail % 2 == 0 else InjectedError)("fn failed")
                raise sys_.fail_exc[t]
            sys_.ev(e="fnret", i=i)
            return ("val", k, i)

        self.f = L.lru_cache(maxsize=None if maxsize < 0 else maxsize)(fn)

    def ev(self, **kw):
        self.trace.append(kw)

    def info(self):
        i = self.f.cache_info()
        self.ev(e="info", h=i.hits, m=i.misses, s=i.currsize)
        return [i.hits, i.misses, i.currsize]

    def _after(self, t, r, thrown=None):
        k = self.tkey[t]
        if r[0] == "token":
            self.pc[t] = "infn"
            return
        self.task[t] = None
        self.pc[t] = "idle"
        self.tkey[t] = 0
        if r[0] == "done":
            v = r[1]
            if isinstance(v, tuple) and len(v) == 3 and v[0] == "val":
                self.ev(e="ret", t=t, k=v[1] if v[1] == k else -1, i=v[2])
            else:
                self.ev(e="ret", t=t, k=-1, i=0)
        else:
            exc = r[1]
            expected = thrown if thrown is not None else self.fail_exc.get(t)
            self.ev(e="err", t=t, k=k, same=exc is expected, what=type(exc).__name__)

    def can(self, a, t):
        if a == "start":
            return self.pc[t] == "idle"
        return self.pc[t] == "infn"

    def apply(self, a, t, k=0):
        self.current = t
        if a == "start":
            self.ev(e="start", t=t, k=k)
            self.tkey[t] = k
            task = Task(self.f(k), self.acct)
            self.task[t] = task
            self._after(t, task.step())
        elif a == "tick":
            self._after(t, self.task[t].step())
        elif a == "fail":
            self.fail_task = t
            self._after(t, self.task[t].step())
            self.fail_task = 0
        elif a == "cancel":
            exc = Cancelled("cancel")
            self._after(t, self.task[t].throw(exc), thrown=exc)
        elif a == "clear":
            self.f.cache_clear()
            self.ev(e="clear")
        elif a == "discard":
            self.f.cache_discard(k)
            self.ev(e="discard", k=k)
        else:
            raise ValueError(a)

    def project(self):
        i = self.f.cache_info()
        return {"h": i.hits, "m": i.misses, "s": i.currsize,
                "pc": [self.pc[t] for t in range(1, self.ntask + 1)],
                "k": [self.tkey[t] for t in range(1, self.ntask + 1)]}

    def drain(self):
        guard = 0
        while any(p == "infn" for p in self.pc.values()):
            guard += 1
            if guard > 1000:
                self.ev(e="stuck")
                return
            for t in self.pc:
                if self.pc[t] == "infn":
                    self.apply("tick", t)
        self.info()
        self.ev(e="quiesce")
        for k in range(1, self.nkey + 1):
            self.current = 0
            before = self.ninv
            r = Task(self.f(k), self.acct).run()
            inv = self.ninv > before
            # the wrapped function logged invoke/fnret itself; fold them into one probe event
            if inv:
                del self.trace[-2:]
            i = r[1][2] if r[0] == "done" and isinstance(r[1], tuple) else 0
            self.ev(e="probe", k=k, inv=inv, i=i)
            self.info()

    def cfg(self):
        return {"maxsize": self.maxsize, "keys": self.nkey, "tasks": self.ntask, "fnsusp": self.fnsusp}


def cfg_text(ntask, nkey, maxsize, callsper, fnsusp, edges=True):
    ms = "MaxSize <- Unbounded" if maxsize < 0 else f"MaxSize = {maxsize}"
    return f"""CONSTANTS
  NTask = {ntask}
  NKey = {nkey}
  {ms}
  CallsPer = {callsper}
  FnSusp = {fnsusp}
  AllowClear = TRUE
  AllowCancel = TRUE
  AllowFail = TRUE
  EdgeFile = "{'@OUT:edges.ndjson@' if edges else ''}"
INIT Init
NEXT Next
VIEW View
CHECK_DEADLOCK FALSE
INVARIANT SizeBound
INVARIANT NoDup
INVARIANT TypeOK
""" + ("ACTION_CONSTRAINT EmitEdge\n" if edges else "")


# (NTask, NKey, maxsize (-1 = None), CallsPer, FnSusp)
TIERS = {
    "mini": [(2, 2, 1, 2, 1), (2, 2, -1, 1, 1)],
    "quick": [(2, 2, 1, 2, 1), (2, 2, -1, 2, 1), (3, 2, 1, 1, 1), (2, 3, 2, 2, 1), (2, 2, 0, 1, 1),
              (1, 4, 3, 6, 1)],      # one caller, six calls over four keys, maxsize 3: recency beyond two entries
    "thorough": [(3, 2, 1, 2, 2), (3, 3, 2, 2, 1), (2, 3, 2, 3, 2), (3, 2, -1, 2, 1), (4, 2, 1, 1, 1),
                 (4, 3, 2, 1, 1), (2, 2, 0, 2, 2), (3, 3, 1, 2, 1), (1, 4, 3, 6, 1), (2, 4, 3, 3, 1)],
}


def predict_probes(state, nkey, maxsize):
    """What spec/LruConc.tla says happens from `state` when the calls in flight are completed in the
    harness' drain order and every key is then called once, sequentially (C10 from the contents)."""
    order = list(state["o"])
    pc, key, rem = list(state["pc"]), list(state["k"]), list(state["r"])
    caching = maxsize != 0

    def store(k):
        if not caching or k in order:
            return
        if maxsize > 0 and len(order) >= maxsize:
            order.pop(0)
        order.append(k)

    while any(p == "infn" for p in pc):
        for t in range(len(pc)):
            if pc[t] == "infn":
                rem[t] -= 1
                if rem[t] <= 0:
                    pc[t] = "idle"
                    store(key[t])
    out = []
    for k in range(1, nkey + 1):
        if caching and k in order:
            out.append(False)
            if maxsize > 0:
                order.remove(k)
                order.append(k)
        else:
            out.append(True)
            store(k)
    return out


def replay_path(args):
    (ntask, nkey, maxsize, _callsper, fnsusp), path = args
    L = tm.load_lib()
    s = LruSys(L, ntask, nkey, maxsize, fnsusp)
    drift = None
    for j, e in enumerate(path):
        a, t, k = e["a"]
        if a in ("start", "tick", "fail", "cancel") and not s.can(a, t):
            drift = {"step": j, "label": e["a"], "why": "not enabled in the implementation"}
            break
        s.apply(a, t, k)
        got = s.project()
        exp = {"h": e["t"]["h"], "m": e["t"]["m"], "s": len(e["t"]["o"]), "pc": list(e["t"]["pc"]), "k": list(e["t"]["k"])}
        s.ev(e="info", h=got["h"], m=got["m"], s=got["s"])
        if got != exp:
            bad = [x for x in exp if got[x] != exp[x]]
            drift = {"step": j, "label": e["a"], "fields": bad, "expected": {x: exp[x] for x in bad}, "observed": {x: got[x] for x in bad}}
            break
    s.drain()
    probes = None
    if drift is None and path:
        want = predict_probes(path[-1]["t"], nkey, maxsize)
        got = [e["inv"] for e in s.trace if e["e"] == "probe"]
        if got != want:
            probes = {"expected_invocations": want, "observed": got, "model_order": path[-1]["t"]["o"]}
    return {"cfg": s.cfg(), "ev": s.trace, "drift": drift, "path": [e["a"] for e in path], "acct_ok": s.acct.ok(), "probes": probes}


def random_run(args):
    seed, ntask, nkey, maxsize, fnsusp = args
    rnd = random.Random(seed)
    L = tm.load_lib()
    s = LruSys(L, ntask, nkey, maxsize, fnsusp)
    steps = []
    for _ in range(rnd.randint(6, 14 * ntask)):
        x = rnd.random()
        if x < 0.04:
            s.apply("clear", 0)
            steps.append(["clear", 0, 0])
        elif x < 0.08:
            k = rnd.randint(1, nkey)
            s.apply("discard", 0, k)
            steps.append(["discard", 0, k])
        else:
            t = rnd.randint(1, ntask)
            if s.pc[t] == "idle":
                k = rnd.randint(1, nkey)
                s.apply("start", t, k)
                steps.append(["start", t, k])
            else:
                a = rnd.choices(["tick", "fail", "cancel"], [10, 1, 1])[0]
                s.apply(a, t)
                steps.append([a, t, 0])
        s.info()
    s.drain()
    return {"cfg": s.cfg(), "ev": s.trace, "drift": None, "path": steps, "acct_ok": s.acct.ok(), "seed": seed}


def signature(tr, matched):
    ev = tr["ev"]
    bad = ev[matched] if matched < len(ev) else {"e": "?"}
    what = bad["e"]
    ctx = ""
    pre = ev[:matched]
    if any(e["e"] == "err" for e in pre):
        ctx = "+after-failed-or-cancelled-call"
    elif any(e["e"] in ("clear", "discard") for e in pre):
        ctx = "+after-clear-or-discard"
    if what == "info":
        h, m, s_ = bad["h"], bad["m"], bad["s"]
        ms = tr["cfg"]["maxsize"]
        if ms >= 0 and s_ > ms:
            what = "currsize-exceeds-maxsize"
        else:
            what = "cache_info-accounting"
    return f"C11/lru_cache/{what}-rejected{ctx}"


def check(prop, tier, seed, into=None):
    v = into or Verdict(prop, tier, seed)
    label_counts = {}
    rnd = random.Random(seed)
    tot = {"states": 0, "transitions": 0, "paths": 0, "drift": 0}
    alltraces = []
    for cfg in TIERS[tier]:
        res = run_tlc("LruConc", cfg_text(*cfg), outfiles=["edges.ndjson"], timeout=3000)
        tot["states"] += res["distinct"]
        tot["transitions"] += res["generated"]
        edges = read_ndjson(res["files"]["edges.ndjson"])
        for e_ in edges:
            label_counts[e_["a"][0]] = label_counts.get(e_["a"][0], 0) + 1
        paths = build_paths(edges, lambda f: f["h"] == 0 and f["m"] == 0 and not f["o"] and all(x == cfg[3] for x in f["l"]))
        tot["paths"] += len(paths)
        cap = 800 if tier == "mini" else 2500 if tier == "quick" else 20000
        jobs = [(cfg, p) for p in paths]
        del edges, paths
        with mp.Pool(min(16, os.cpu_count() or 4)) as pool:
            drifted, sample, bad, _n = stream_replays(pool, replay_path, jobs, rnd, cap)
        del jobs
        tot["drift"] += len(drifted)
        alltraces += drifted + sample
        for b in bad:
            v.violation("C11/lru_cache/foreign-suspension", {"engine": "lruconc", **b})
        for r in sample:
            if r.get("probes"):
                v.violation("C11/lru_cache/contents-after-quiescence-differ",
                            {"engine": "lruconc", "spec": "LruConc", "cfg": r["cfg"], "path": r["path"], **r["probes"]})
    nrand = 300 if tier == "mini" else 1500 if tier == "quick" else 20000
    jobs = [(seed * 104729 + i, rnd.choice([2, 3, 4, 5]), rnd.choice([1, 2, 3, 4]), rnd.choice([-1, 0, 1, 2, 3]), rnd.choice([1, 2, 3]))
            for i in range(nrand)]
    with mp.Pool(min(16, os.cpu_count() or 4)) as pool:
        rres = pool.map(random_run, jobs, chunksize=64)
    alltraces += rres
    # the same object under a real event loop: asyncio tasks, asyncio.Lock, Task.cancel()
    from . import eng_aio  # noqa: PLC0415
    aio = eng_aio.traces_for("lru", tier, seed)
    alltraces += aio
    rejected, st = validate("LruObs", [{"cfg": t["cfg"], "ev": t["ev"]} for t in alltraces])
    for idx, matched in sorted(rejected.items()):
        tr = alltraces[idx]
        v.violation(signature(tr, matched),
                    {"engine": "lruconc", "mode": ("asyncio" if tr["path"][:1] == ["asyncio"] else "random") if "seed" in tr else "graph", "spec": "LruObs", "cfg": tr["cfg"], "path": tr["path"],
                     "step": matched, "matched_prefix": tr["ev"][max(0, matched - 6): matched],
                     "rejected_event": tr["ev"][matched] if matched < len(tr["ev"]) else None, "drift": tr.get("drift")})
    benign = sum(1 for i, t in enumerate(alltraces) if t.get("drift") and i not in rejected)
    for t in alltraces[:2] + rres[:2]:
        v.sample({"cfg": t["cfg"], "path": t["path"][:12], "events": t["ev"][:8]})
    v.assumptions += ["a clear resets the statistics; a call in flight was counted before the reset and is not counted again",
                      "the wrapped function is the instrumented coroutine function of the harness (suspends FnSusp times, returns a fresh value per invocation)"]
    vac = dict(label_counts)
    missing = [a for a in ["start", "tick", "fail", "cancel", "clear", "discard"] if not vac.get(a)]
    if missing:
        raise MachineryError(f"vacuity guard: actions never taken in the explored graphs: {missing}")
    return v.finish({
        "states": tot["states"], "transitions": tot["transitions"],
        "traces_validated_against_impl": st["traces"] + tot["paths"], "edge_cover_paths": tot["paths"],
        "drifted_replays": tot["drift"], "drift_benign": benign, "random_schedule_traces": len(rres), "asyncio_loop_traces": len(aio),
        "traces_validated_by_TLC_against_LruObs": st["traces"], "trace_validation": st,
        "configs": [list(c) for c in TIERS[tier]], "exhaustive": True, "vacuity_guard_actions_taken": vac,
        "evaluations": tot["paths"] + len(rres), "distinct_nontrivial": tot["paths"],
        "rule": "one replay per transition of the LruConc state graph (shortest path + edge + drain + sequential probe of every key)",
        "checker_cmd": "tlc spec/LruConc.tla ; tlc -workers 1 spec/LruObs.tla (TRACE_FILE=...)",
    })
