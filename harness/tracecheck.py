"""code -> spec: validate recorded executions against an observable (*Obs) TLA+ spec.

All traces of a batch go into one JSON file; one TLC run (-workers 1) consumes them,
keeping the longest matched prefix of every trace in a TLC register; the POSTCONDITION
prints the traces that were not consumed completely.
"""
from __future__ import annotations

import json
import os
import re
import shutil
import subprocess
import time

from .tlc import BUILD, SPEC, MachineryError

CFG = """SPECIFICATION {spec}
POSTCONDITION Accepted
CHECK_DEADLOCK FALSE
"""


def validate(module, traces, *, timeout=1800, chunk=4000, extra_cfg="", spec="Spec"):
    """Return (rejected, stats): rejected = {trace index (0-based): matched prefix length}."""
    rejected = {}
    stats = {"traces": len(traces), "events": sum(len(t.get("ev", t.get("log", []))) for t in traces), "states": 0,
             "transitions": 0, "wall": 0.0, "runs": 0}
    if not traces:
        return rejected, stats
    for base in range(0, len(traces), chunk):
        part = traces[base: base + chunk]
        rundir = os.path.join(BUILD, f"trace-{os.getpid()}-{module}-{base}")
        shutil.rmtree(rundir, ignore_errors=True)
        os.makedirs(rundir)
        tf = os.path.join(rundir, "traces.json")
        json.dump(part, open(tf, "w"))
        cfgp = os.path.join(rundir, module + ".cfg")
        open(cfgp, "w").write(CFG.format(spec=spec) + extra_cfg)
        env = dict(os.environ, TRACE_FILE=tf)
        cmd = ["tlc", "-workers", "1", "-metadir", os.path.join(rundir, "meta"), "-noGenerateSpecTE",
               "-config", cfgp, os.path.join(SPEC, module + ".tla")]
        t0 = time.time()
        try:
            p = subprocess.run(cmd, cwd=SPEC, env=env, capture_output=True, text=True, timeout=timeout)
        except subprocess.TimeoutExpired as ex:
            raise MachineryError(f"trace validation of {module} timed out") from ex
        out = p.stdout + p.stderr
        stats["wall"] += time.time() - t0
        stats["runs"] += 1
        m = re.search(r'<<"VALIDATED", (\d+)>>', out)
        if not m or int(m.group(1)) != len(part) or "Error:" in out:
            tail = "\n".join(out.splitlines()[-30:])
            raise MachineryError(f"trace validation of {module} failed:\n{tail}")
        for mm in re.finditer(r'<<"REJECTED", (\d+), (\d+)>>', out):
            rejected[base + int(mm.group(1)) - 1] = int(mm.group(2))
        g = re.search(r"(\d+) states generated, (\d+) distinct states found", out)
        if g:
            stats["transitions"] += int(g.group(1))
            stats["states"] += int(g.group(2))
        shutil.rmtree(rundir, ignore_errors=True)
    stats["wall"] = round(stats["wall"], 2)
    return rejected, stats
