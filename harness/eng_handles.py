"""Handles engine (C07 borrow, C08 scoped_iter): every history of spec/Handles.tla replayed
into asyncstdlib.borrow / asyncstdlib.scoped_iter over an instrumented underlying iterator.
"""
from __future__ import annotations

import multiprocessing as mp
import os

from . import tm
from .driver import Accounting, Task
from .graph import build_paths
from .instruments import Cancelled, ClsSource, ClsSourceNoClose, AgenSource, Item, Recorder, SyncIterSource
from .report import Verdict
from .tlc import read_ndjson, run_tlc


class SendSource(ClsSource):
    """Class-based underlying iterator that also supports asend/athrow (like a generator)."""

    async def asend(self, value):
        return await self.__anext__()

    async def athrow(self, *exc):
        self.rec.ev(ev="athrow-reached-underlying")
        return await self.__anext__()


class ThrowOnlySource(ClsSource):
    async def athrow(self, *exc):
        self.rec.ev(ev="athrow-reached-underlying")
        return await self.__anext__()


class BlockError(Exception):
    def __bool__(self):      # an exception is one whatever its truth value
        return False


class HSys:
    def __init__(self, L, datalen, ukind, salt=None):
        self.L = L
        self.rec = Recorder()
        self.salt, self.ntool, self.stride, self.skip = salt, 0, 1, 0
        items = [Item(1, p + 1, 1) for p in range(datalen)]
        self.none_pos = 0
        if ukind == "clsnone":       # a class-based iterator one of whose items is the object None (an item like any other)
            self.none_pos = 2 if datalen % 2 == 0 else 1
            if datalen:
                items[self.none_pos - 1] = None
        if ukind == "agen":
            self.usrc = AgenSource(self.rec, 1, items)
            self.U = self.usrc.gen
        elif ukind == "sync":
            # a plain synchronous iterator handed to scoped_iter: the scope owns the asynchronous view it makes
            # of it; the owner keeps advancing the iterator itself with next()
            self.usrc = SyncIterSource(self.rec, 1, items)
            self.U = self.usrc
        else:
            cls = {"send": SendSource, "throwonly": ThrowOnlySource, "cls": ClsSource, "noclose": ClsSourceNoClose,
                   "iterable": ClsSource, "clsnone": ClsSource, "proxy": ClsSource}[ukind]
            self.usrc = cls(self.rec, 1, items)
            self.U = self.usrc
            if ukind == "proxy":      # what is handed over is a delegating proxy: its aclose exists, through __getattr__ only
                from .instruments import ClsSourceDelegating  # noqa: PLC0415
                self.U = ClsSourceDelegating(self.usrc)
        self.ukind = ukind
        self.arg0 = self.U
        if ukind == "iterable":
            # what is handed to scoped_iter is an iterable that is not its own iterator (and has no aclose):
            # the scope owns the iterator it obtains from it
            usrc = self.usrc

            class Iterable:
                def __aiter__(self):
                    return usrc

            self.arg0 = Iterable()
        self.h = {0: self.U}
        self.scopes = {}   # handle id -> (context manager object)
        self.nh = 0
        self.probe_alive = {}

    def run(self, aw):
        return Task(aw, self.rec.acct).run()

    def counts(self):
        log = self.rec.log
        return {"up": sum(1 for e in log if e["ev"] == "pull" and e["res"] == "item"),
                "us": sum(1 for e in log if e["ev"] == "pull" and e["res"] == "stop"),
                "uc": self._closes()}

    def _closes(self):
        u = self.usrc
        if self.ukind == "agen" and u.state == "new" and u.gen.ag_frame is None:
            return 1   # an async generator closed before it ever ran: its body cannot notice
        return getattr(u, "closes", 0)

    def pos_of(self, x):
        """Position of what a handle or tool handed out (-1: not an item of the underlying iterator)."""
        if isinstance(x, tuple) and x:
            x = x[0]
        if isinstance(x, Item):
            return x.p
        if x is None and self.none_pos:
            return self.none_pos
        return -1

    def tool(self, h, j, which, k):
        """One concrete tool application with the abstract effect of the model's Tool(h, j, which): "islice" asks for j
        items and closes (j pulls, or all there is and the end); "zip" sees j items and looks at one more.  Which
        concrete library tool stands for it rotates with the replay (k: how many items the model says are consumed)."""
        L = self.L
        self.stride, self.skip = 1, 0
        if self.salt is None or j == 0:     # (a tool nobody ever asks for an item never gets to run: closing it closes nothing)
            v = 0
        else:
            v = (self.salt + self.ntool) % (8 if which == "islice" else 4)
        self.ntool += 1

        async def take(it, n):
            out = []
            try:
                for _ in range(n):
                    try:
                        out.append(await it.__anext__())
                    except StopAsyncIteration:
                        break
            finally:
                await it.aclose()
            return out

        if which == "islice":
            if v == 1:
                return L.list(L.islice(h, 0, j, 1))
            if v == 2:
                return take(L.islice(h, 0, None, 1), j)
            if v == 3 and j % 2 == 1 and k == j:      # an open-ended slice with a step, closed by its consumer after (j+1)/2 items
                self.stride = 2
                return take(L.islice(h, 0, None, 2), (j + 1) // 2)
            if v == 4:
                return take(L.zip_longest(h, []), j)
            if v == 7:                                 # batches of one, closed by the consumer after j of them
                async def singles():
                    return [b[0] for b in await take(L.batched(h, 1), j)]
                return singles()
            if v == 6 and j >= 2:                      # a slice with a start: the first items are consumed, not handed out
                self.skip = min(2, j - 1)
                return L.list(L.islice(h, self.skip, j))
            if v == 5:
                async def second():
                    return [x[1] for x in await take(L.enumerate(h), j)]
                return second()
            return L.list(L.islice(h, j))
        seen = {"n": 0}

        async def first_j(_x):
            seen["n"] += 1
            return seen["n"] <= j

        async def first_j_then_fail(_x):
            seen["n"] += 1
            if seen["n"] > j:
                raise BlockError()
            return True

        async def failing(tool_):
            out = []
            try:
                async for x in tool_:
                    out.append(x)
            except BlockError:
                pass
            return out

        if v == 1:
            return L.list(L.takewhile(first_j, h))
        if v == 2:
            return failing(L.filter(first_j_then_fail, h))
        if v == 3:
            return failing(L.takewhile(first_j_then_fail, h))
        return L.list(L.zip(h, range(j)))

    def apply(self, a, k=None):
        op = a[0]
        L = self.L
        if op == "borrow":
            self.nh += 1
            self.h[self.nh] = L.borrow(self.h[a[2]])
            return ("ok",)
        if op == "scope":
            self.nh += 1
            cm = L.scoped_iter(self.arg0 if a[2] == 0 else self.h[a[2]])
            r = self.run(cm.__aenter__())
            if r[0] != "done":
                return ("raised", r[1])
            self.scopes[self.nh] = cm
            self.h[self.nh] = r[1]
            return ("ok",)
        if op == "next":
            if a[1] == 0 and self.ukind == "sync":
                try:
                    return ("item", next(self.usrc).p)
                except StopIteration:
                    return ("item", 0)
            r = self.run(self.h[a[1]].__anext__())
            return self._item(r)
        if op == "aclose":
            h = self.h[a[1]]
            # alternate between h.aclose() and iter(h).aclose()
            target = h if a[1] % 2 else h.__aiter__()
            r = self.run(target.aclose())
            return ("ok",) if r[0] == "done" else ("raised", r[1])
        if op == "tool":
            h, j, which = self.h[a[1]], a[2], a[3]
            r = self.run(self.tool(h, j, which, k))
            if r[0] != "done":
                return ("raised", r[1])
            got = [self.pos_of(x) for x in r[1]]
            return ("items", got)
        if op == "send":
            h = self.h[a[1]]
            if not hasattr(h, "asend"):
                return ("noattr",)
            r = self.run(h.asend(None))
            return self._item(r)
        if op == "exit":
            hid, how = a[1], a[3]
            cm = self.scopes.pop(hid)
            exc = None if how == "normal" else BlockError() if how == "raise" else Cancelled()
            r = self.run(cm.__aexit__(type(exc) if exc is not None else None, exc, None))
            if r[0] != "done":
                return ("raised", r[1])
            return ("ok", bool(r[1]))
        raise ValueError(op)

    def _item(self, r):
        if r[0] == "done":
            return ("item", self.pos_of(r[1]))
        if isinstance(r[1], StopAsyncIteration):
            return ("item", 0)
        return ("raised", r[1])


def cfg_text(datalen, maxh, maxops, scope, borrow, usend, edges=True):
    b = lambda x: "TRUE" if x else "FALSE"  # noqa: E731
    return f"""CONSTANTS
  DataLen = {datalen}
  MaxHandles = {maxh}
  MaxOps = {maxops}
  AllowScope = {b(scope)}
  AllowBorrow = {b(borrow)}
  USend = {b(usend)}
  EdgeFile = "{'@OUT:edges.ndjson@' if edges else ''}"
INIT Init
NEXT Next_
VIEW View
CHECK_DEADLOCK FALSE
INVARIANT BorrowNeverCloses
INVARIANT InsideBlockOpen
INVARIANT InOrder
""" + ("ACTION_CONSTRAINT EmitEdge\n" if edges else "")


# (DataLen, MaxHandles, MaxOps, scope, borrow, usend, underlying kinds)
TIERS = {
    "C07": {"quick": [(2, 2, 4, False, True, False, ["cls", "agen", "throwonly", "noclose", "clsnone", "proxy"]), (2, 1, 4, False, True, True, ["send"]), (3, 1, 3, False, True, False, ["clsnone", "agen"])],
            "thorough": [(3, 3, 5, False, True, False, ["cls", "agen", "throwonly", "noclose", "clsnone"]), (3, 2, 5, False, True, True, ["send"]), (2, 2, 6, False, True, False, ["cls"])]},
    "C08": {"quick": [(2, 2, 4, True, False, False, ["cls", "agen", "iterable", "sync", "noclose", "clsnone", "proxy"]), (2, 2, 4, True, True, False, ["cls"]), (3, 1, 3, True, False, False, ["clsnone", "agen"])],
            "thorough": [(3, 3, 5, True, False, False, ["cls", "agen", "iterable", "sync", "noclose", "clsnone", "proxy"]), (3, 3, 5, True, True, False, ["cls", "agen"]), (2, 2, 6, True, True, True, ["send"])]},
}


NVARIANTS = 8     # concrete tools standing for one Tool step of the model (HSys.tool)


def replay_path(args):
    prop, datalen, ukind, path = args[:4]
    salt_ = args[4] if len(args) > 4 else len(path) + sum(e["a"][1] for e in path)
    L = tm.load_lib()
    s = HSys(L, datalen, ukind, salt=salt_)
    name = "borrow" if prop == "C07" else "scoped_iter"

    def bad(cls, j, detail):
        return [(f"{prop}/{name}/{cls}", {"engine": "handles", "spec": "Handles", "cfg": {"datalen": datalen, "underlying": ukind},
                                         "path": [e["a"] for e in path], "step": j, **detail})]

    closed = set()   # handles ended explicitly (aclose by user/tool, leaving their scope)
    # An iterator that cannot be closed is handed out as it is by scoped_iter ("nothing to take care of"): what C08
    # says about the end of the block has no subject then.  What remains is the inside of the outermost block.
    inblock_only = prop == "C08" and ukind == "noclose"
    for j, e in enumerate(path):
        a = e["a"]
        if inblock_only and (a[0] in ("exit", "aclose") or (a[0] == "scope" and a[2] != 0) or (a[0] == "tool" and e["t"]["up"] - e["f"]["up"] < a[2] + (a[3] == "zip"))):
            return []
        if a[0] in ("aclose", "tool") and e["f"]["kind"][a[1] - 1] == "borrow":
            closed.add(a[1])
        if a[0] == "exit":
            closed.add(a[1])
            p_ = e["f"]["par"][a[1] - 1]
            if p_ and e["f"]["kind"][p_ - 1] == "borrow":
                closed.add(p_)
        if ukind == "sync" and a[0] == "next" and a[1] == 0 and e["f"]["uc"] >= 1:
            continue      # the model's underlying is closed; a synchronous iterator cannot be, its owner may go on using it
        try:
            r = s.apply(a, k=(e["t"]["up"] - e["f"]["up"]) if a[0] == "tool" else None)
        except Exception as ex:  # noqa: BLE001
            return bad("operation-raises-" + type(ex).__name__, j, {"observed": repr(ex)})
        if r[0] == "raised":
            return bad("operation-raises-" + type(r[1]).__name__, j, {"observed": repr(r[1]), "op": a})
        exp_t = e["t"]
        c = s.counts()
        if a[0] in ("next", "send"):
            if r != ("item", a[2]):
                cls = "closed-handle-yields" if a[2] == 0 and r[1] else "item-lost-or-reordered"
                return bad(cls, j, {"expected": a[2], "observed": r, "op": a})
        if a[0] == "tool":
            k = e["t"]["up"] - e["f"]["up"]
            exp_items = list(range(e["f"]["up"] + 1 + s.skip, e["f"]["up"] + 1 + min(a[2], k), s.stride))
            if r[1] != exp_items:
                return bad("tool-sees-wrong-items", j, {"expected": exp_items, "observed": r[1], "op": a})
        exp_c = {"up": exp_t["up"], "us": exp_t["us"], "uc": exp_t["uc"]}
        if ukind == "noclose" and prop == "C08":   # nothing to observe at the iterator: the scope's end shows in its handles only
            c["uc"] = exp_c["uc"]
        if ukind == "sync":   # a synchronous iterator has nothing to close: whether its view was closed shows in the handles only
            c["uc"] = exp_c["uc"]
            if exp_c["uc"] >= 1:      # ... and what its owner sees afterwards is not the library's business (skipped above)
                c["us"] = exp_c["us"]
        if ukind == "agen":   # a finished async generator reports its end only once
            exp_c["us"] = c["us"] = 0
            if s.usrc.state == "exhausted":   # ... and cannot observe an aclose() after it has finished
                c["uc"] = exp_c["uc"]
        if c != exp_c:
            if c["uc"] != exp_c["uc"]:
                cls = "underlying-closed" if c["uc"] > exp_c["uc"] else "underlying-not-closed-at-exit"
                if exp_c["uc"] and c["uc"] > exp_c["uc"]:
                    cls = "underlying-closed-twice"
            elif c["up"] != exp_c["up"]:
                cls = "underlying-advanced-by-ended-handle" if c["up"] > exp_c["up"] else "underlying-not-advanced"
            else:
                cls = "end-detections-differ"
            return bad(cls, j, {"expected": exp_c, "observed": c, "op": a})
    # afterwards: every ended handle yields nothing and does not touch U; U serves its owner in order
    last_t = path[-1]["t"] if path else None
    if inblock_only:
        last_t = None
    if last_t is not None:
        for hid in range(1, last_t["nh"] + 1):
            if not last_t["alive"][hid - 1]:
                before = s.counts()
                r = s.run(s.h[hid].__anext__())
                if not (r[0] == "raised" and isinstance(r[1], StopAsyncIteration)):
                    return bad("ended-handle-yields", len(path), {"handle": hid, "observed": repr(r)})
                if s.counts() != before:
                    return bad("ended-handle-advances-underlying", len(path), {"handle": hid, "expected": before, "observed": s.counts()})
                # ... nor through a tool that skips or collects (islice with a start, nlargest), nor through a fresh
                # borrow of the ended handle (its __anext__ / asend / athrow)
                L_ = s.L
                via = [("islice-with-start", lambda h=s.h[hid]: L_.list(L_.islice(h, 1, 2))), ("nlargest", lambda h=s.h[hid]: L_.nlargest(h, 1))]
                if ukind != "sync" and hasattr(s.h[hid], "__anext__"):
                    ended_itself = hid in closed or last_t["shut"][hid - 1]

                    def reborrow(h=s.h[hid], ended_itself=ended_itself):
                        async def go():
                            nb = L_.borrow(h)
                            out_ = []
                            try:
                                out_.append(await nb.__anext__())
                            except StopAsyncIteration:
                                pass
                            # asend/athrow are judged for handles that were ended themselves (closed, or their block
                            # left): a handle that merely sits on top of an ended one was never closed, and neither
                            # property says anything about what sending into it does (same rule as below)
                            for meth_, arg_ in (("asend", (None,)), ("athrow", (BlockError(),))):
                                if ended_itself and hasattr(nb, meth_):
                                    try:
                                        out_.append(await getattr(nb, meth_)(*arg_))
                                    except (StopAsyncIteration, BlockError):
                                        pass
                            return out_
                        return go()
                    via.append(("re-borrow", reborrow))
                for what, mk in via:
                    before_log = len(s.rec.log)
                    r = s.run(mk())
                    if len(s.rec.log) != before_log or (r[0] == "done" and any(isinstance(x, Item) for x in r[1])):
                        return bad(f"ended-handle-reaches-underlying-through-{what}", len(path),
                                   {"handle": hid, "observed": {"result": repr(r)[:120], "underlying_events": s.rec.log[before_log:]}})
                for meth in ("asend", "athrow"):
                    if (hid in closed or last_t["shut"][hid - 1]) and hasattr(s.h[hid], meth):
                        arg = (None,) if meth == "asend" else (BlockError(),)
                        before_log = len(s.rec.log)
                        s.run(getattr(s.h[hid], meth)(*arg))
                        if len(s.rec.log) != before_log:
                            return bad(f"ended-handle-{meth}-reaches-underlying", len(path), {"handle": hid, "observed": s.rec.log[before_log:]})
        if last_t["uc"] == 0:
            want = last_t["up"] + 1
            if ukind == "sync":
                try:
                    r = ("done", next(s.usrc))
                except StopIteration as ex:
                    r = ("raised", ex)
            else:
                r = s.run(s.U.__anext__())
            got = s.pos_of(r[1]) if r[0] == "done" else 0
            if want <= len(s.usrc.items) and got != want:
                return bad("underlying-does-not-continue", len(path), {"expected": want, "observed": repr(r)})
    if not s.rec.acct.ok():
        return bad("foreign-suspension", len(path), {})
    return []


def random_history(args):
    """A random history beyond the bounds (more handles, longer, more data), driven by a small
    mirror of the enabling conditions only (which handles exist, which scopes are open)."""
    import random  # noqa: PLC0415

    seed, prop, datalen, ukind = args
    rnd = random.Random(seed)
    L = tm.load_lib()
    s = HSys(L, datalen, ukind)
    kinds, pars, scopes = {}, {}, []     # handle id -> kind / parent; open scopes (innermost last)
    ev = []
    for _ in range(rnd.randint(6, 14)):
        nh = len(kinds)
        opts = []
        if nh < 6:
            if prop == "C07" or rnd.random() < 0.4:
                opts.append(("borrow", rnd.randint(0, nh)))
            if prop == "C08" and (s.counts()["uc"] == 0 or scopes):
                p_ = scopes[-1] if scopes else rnd.choice([0] + [h for h in kinds if kinds[h] == "borrow"])
                opts.append(("scope", p_))
        opts.append(("next", rnd.randint(0, nh)))
        if nh:
            h = rnd.randint(1, nh)
            opts += [("aclose", h), ("tool", h), ("next", h)]
            if ukind == "send" and pars[h] == 0:
                opts.append(("send", h))
        if scopes:
            opts.append(("exit", scopes[-1]))
        op, x = rnd.choice(opts)
        rec = {"op": op, "h": 0, "p": 0, "j": 0, "over": 0, "how": "-", "item": 0}
        if op in ("borrow", "scope"):
            a = [op, nh + 1, x, "-"]
            kinds[nh + 1], pars[nh + 1] = op, x
            rec["p"] = x
            if op == "scope":
                scopes.append(nh + 1)
        elif op == "next":
            a = ["next", x, 0, "-"]
            rec["h"] = x
        elif op == "aclose":
            a = ["aclose", x, 0, "-"]
            rec["h"] = x
        elif op == "send":
            a = ["send", x, 0, "-"]
            rec["h"] = x
        elif op == "tool":
            j, which = rnd.randint(0, 3), rnd.choice(["islice", "zip"])
            a = ["tool", x, j, which]
            rec.update(h=x, j=j, over=0 if which == "islice" else 1)
        else:
            how = rnd.choice(["normal", "raise", "cancel"])
            a = ["exit", x, 0, how]
            rec["how"] = how
            scopes.pop()
        try:
            r = s.apply(a)
        except Exception as ex:  # noqa: BLE001
            return {"cfg": {"datalen": datalen, "underlying": ukind}, "ev": ev, "error": f"{a}: {ex!r}"}
        if r[0] == "raised":
            return {"cfg": {"datalen": datalen, "underlying": ukind}, "ev": ev, "error": f"{a}: {r[1]!r}"}
        if op in ("next", "send"):
            rec["item"] = r[1]
        c = s.counts()
        rec.update(up=c["up"], uc=c["uc"], us=-1 if ukind == "agen" else c["us"])
        if ukind == "agen" and s.usrc.state == "exhausted":
            rec["uc"] = -1
        ev.append(rec)
    return {"cfg": {"datalen": datalen, "underlying": ukind}, "ev": ev, "error": None}


def beyond_bounds(prop, tier, seed, v):
    import random  # noqa: PLC0415
    from .tracecheck import validate  # noqa: PLC0415

    rnd = random.Random(seed)
    n = 400 if tier == "quick" else 8000
    name = "borrow" if prop == "C07" else "scoped_iter"
    stats = {"traces": 0, "events": 0, "states": 0, "wall": 0.0, "runs": 0}
    for datalen in (3, 5):
        jobs = [(seed * 48271 % (2 ** 31) + i + 1000 * datalen, prop, datalen, rnd.choice(["cls", "cls", "send"])) for i in range(n // 2)]
        with mp.Pool(min(16, os.cpu_count() or 4)) as pool:
            hs = pool.map(random_history, jobs, chunksize=32)
        for h in hs:
            if h["error"]:
                v.violation(f"{prop}/{name}/operation-raises", {"engine": "handles", "mode": "random", "cfg": h["cfg"], "observed": h["error"], "history": h["ev"][-5:]})
        hs = [h for h in hs if not h["error"]]
        const = cfg_text(datalen, 8, 1000, True, True, True, edges=False)
        const = const[: const.index("INIT Init")]
        rejected, st = validate("HandlesTrace", [{"cfg": h["cfg"], "ev": h["ev"]} for h in hs], extra_cfg=const, spec="Spec2")
        for k in stats:
            stats[k] += st[k]
        for idx, matched in rejected.items():
            h = hs[idx]
            bad = h["ev"][matched] if matched < len(h["ev"]) else {}
            v.violation(f"{prop}/{name}/trace-rejected-at-{bad.get('op')}",
                        {"engine": "handles", "mode": "trace", "spec": "HandlesTrace", "cfg": h["cfg"], "step": matched,
                         "matched_prefix": h["ev"][max(0, matched - 5): matched], "rejected_event": bad})
    return stats


def scenarios(prop):
    """Situations outside the sequential model: a close racing with a pull, an underlying iterator
    whose aclose() fails, a scope object entered a second time."""
    from .driver import Suspend  # noqa: PLC0415

    L = tm.load_lib()
    out = []
    name = "borrow" if prop == "C07" else "scoped_iter"

    class CloseError(Exception):
        pass

    def mk(closefails=False, susp=0):
        rec = Recorder()
        rec.susp = susp
        src = ClsSource(rec, 1, [Item(1, p + 1, 1) for p in range(3)])
        if closefails:
            async def failing():      # the close fails and the iterator stays usable
                raise CloseError()
            src.aclose = failing
        return rec, src

    def run(aw, rec):
        return Task(aw, rec.acct).run()

    if prop == "C07":
        # one consumer is suspended inside handle.__anext__() while another closes the handle: either the
        # close fails (the handle is busy), or the handle really is closed afterwards
        rec, src = mk(susp=1)
        h = L.borrow(src)
        t1 = Task(h.__anext__(), rec.acct)
        r1 = t1.step()
        if r1[0] == "token":
            rc = run(h.aclose(), rec)
            t1.run()
            if rc[0] != "done":
                # the close was refused while the handle was busy: a regular close afterwards is a close like any other
                rc = run(h.aclose(), rec)
            if rc[0] == "done":
                before = src.pos
                r2 = run(h.__anext__(), rec)
                if not (r2[0] == "raised" and isinstance(r2[1], StopAsyncIteration)) or src.pos != before:
                    out.append((f"C07/borrow/closed-handle-yields", {"engine": "scenario", "cfg": "close while a pull is suspended, then closed again",
                                                                    "observed": repr(r2)[:120], "underlying_advanced": src.pos - before}))
    else:
        # the underlying iterator's aclose() raises at the outermost exit: the error surfaces and the handle has ended
        rec, src = mk(closefails=True)
        cm = L.scoped_iter(src)
        h = run(cm.__aenter__(), rec)[1]
        run(h.__anext__(), rec)
        rx = run(cm.__aexit__(None, None, None), rec)
        if not (rx[0] == "raised" and isinstance(rx[1], CloseError)):
            out.append(("C08/scoped_iter/close-error-swallowed", {"engine": "scenario", "observed": repr(rx)[:120]}))
        before = src.pos
        r2 = run(h.__anext__(), rec)
        if not (r2[0] == "raised" and isinstance(r2[1], StopAsyncIteration)) or src.pos != before:
            out.append(("C08/scoped_iter/ended-handle-yields", {"engine": "scenario", "cfg": "underlying aclose() raises at exit",
                                                                "observed": repr(r2)[:120], "underlying_advanced": src.pos - before}))
        # a scope object that has been left is entered again: refused, or at least the underlying is closed once only
        rec, src = mk()
        cm = L.scoped_iter(src)
        run(cm.__aenter__(), rec)
        run(cm.__aexit__(None, None, None), rec)
        r3 = run(cm.__aenter__(), rec)
        if r3[0] == "done":
            run(cm.__aexit__(None, None, None), rec)
        if src.closes != 1:
            out.append(("C08/scoped_iter/underlying-closed-twice", {"engine": "scenario", "cfg": "the same scope object entered twice",
                                                                    "expected": 1, "observed": src.closes}))
    return out


def flavour_dependence(seed):
    """C03 for the argument of scoped_iter: one history, every kind of iterable (class-based async iterator, async
    generator, an async iterable that is not its own iterator, a plain synchronous iterator).  A history that
    fails with some kinds and passes with others depends on the flavour of the argument."""
    import json  # noqa: PLC0415
    kinds = ["cls", "agen", "iterable", "sync"]
    res = run_tlc("Handles", cfg_text(2, 2, 4, True, False, False), outfiles=["edges.ndjson"], timeout=3000)
    paths = build_paths(read_ndjson(res["files"]["edges.ndjson"]), lambda f: f["n"] == 0)
    jobs = [("C08", 2, uk, p) for p in paths for uk in kinds]
    bad = {}
    with mp.Pool(min(16, os.cpu_count() or 4)) as pool:
        for out in pool.imap_unordered(replay_path, jobs, chunksize=max(1, len(jobs) // 256)):
            for sig, d in out:
                bad.setdefault(json.dumps(d["path"]), {})[d["cfg"]["underlying"]] = (sig, d)
    found = []
    for _, per in bad.items():
        if len(per) < len(kinds):
            sig, d = sorted(per.items())[0][1]
            found.append(("C03/scoped_iter/" + sig.split("/", 2)[2] + "-with-some-iterable-flavours-only",
                          {**d, "fails_with": sorted(per), "passes_with": [k for k in kinds if k not in per]}))
    return found, len(jobs), {"states": res["distinct"], "transitions": res["generated"]}


def check(prop, tier, seed, into=None):
    v = into or Verdict(prop, tier, seed)
    tot = {"states": 0, "transitions": 0, "paths": 0, "replays": 0}
    for (datalen, maxh, maxops, scope, borrow, usend, ukinds) in TIERS[prop][tier]:
        res = run_tlc("Handles", cfg_text(datalen, maxh, maxops, scope, borrow, usend), outfiles=["edges.ndjson"], timeout=3000)
        tot["states"] += res["distinct"]
        tot["transitions"] += res["generated"]
        edges = read_ndjson(res["files"]["edges.ndjson"])
        paths = build_paths(edges, lambda f: f["n"] == 0)
        tot["paths"] += len(paths)
        # a history with a Tool step is replayed once per concrete tool that can stand for it
        jobs = [(prop, datalen, uk, p, sv) for p in paths for uk in ukinds
                for sv in (range(NVARIANTS) if any(e["a"][0] == "tool" for e in p) and (tier != "thorough" or len(p) <= 4) else [len(p)])]
        with mp.Pool(min(16, os.cpu_count() or 4)) as pool:
            for out in pool.imap_unordered(replay_path, jobs, chunksize=max(1, len(jobs) // 256)):
                for sig, d in out:
                    v.violation(sig, d)
        tot["replays"] += len(jobs)
        if paths:
            v.sample({"underlying": ukinds, "history": [e["a"] for e in paths[len(paths) // 2]]})
    tstats = beyond_bounds(prop, tier, seed, v) if into is None else {}
    for sig, d in scenarios(prop):
        v.violation(sig, d)
    v.assumptions += ["tools that close their input are represented by islice (takes exactly j) and zip (pulls one more than it yields)",
                      "the underlying iterator is an instrumented class-based iterator or async generator with aclose"]
    return v.finish({
        "states": tot["states"], "transitions": tot["transitions"], "traces_validated_against_impl": tot["replays"],
        "edge_cover_paths": tot["paths"], "exhaustive": True, "evaluations": tot["replays"], "distinct_nontrivial": tot["paths"],
        "random_histories_validated_by_TLC": tstats,
        "rule": "one replay per transition of the Handles state graph and underlying kind (shortest history + that operation + probes of every ended handle)",
        "checker_cmd": "tlc spec/Handles.tla",
    })
