"""Handles engine (C07 borrow, C08 scoped_iter): every history of spec/Handles.tla replayed
into asyncstdlib.borrow / asyncstdlib.scoped_iter over an instrumented underlying iterator.
"""
from __future__ import annotations

import multiprocessing as mp
import os

from . import tm
from .driver import Accounting, Task
from .graph import build_paths
from .instruments import Cancelled, ClsSource, ClsSourceNoClose, AgenSource, Item, Recorder
from .report import Verdict
from .tlc import read_ndjson, run_tlc


class SendSource(ClsSource):
    """Class-based underlying iterator that also supports asend/athrow (like a generator)."""

    async def asend(self, value):
        return await self.__anext__()

    async def athrow(self, *exc):
        self.rec.ev(ev="athrow-reached-underlying")
        return await self.__anext__()


class ThrowOnlySource(ClsSource):
    async def athrow(self, *exc):
        self.rec.ev(ev="athrow-reached-underlying")
        return await self.__anext__()


class BlockError(Exception):
    pass


class HSys:
    def __init__(self, L, datalen, ukind):
        self.L = L
        self.rec = Recorder()
        items = [Item(1, p + 1, 1) for p in range(datalen)]
        if ukind == "agen":
            self.usrc = AgenSource(self.rec, 1, items)
            self.U = self.usrc.gen
        else:
            cls = {"send": SendSource, "throwonly": ThrowOnlySource, "cls": ClsSource, "noclose": ClsSourceNoClose}[ukind]
            self.usrc = cls(self.rec, 1, items)
            self.U = self.usrc
        self.ukind = ukind
        self.h = {0: self.U}
        self.scopes = {}   # handle id -> (context manager object)
        self.nh = 0
        self.probe_alive = {}

    def run(self, aw):
        return Task(aw, self.rec.acct).run()

    def counts(self):
        log = self.rec.log
        return {"up": sum(1 for e in log if e["ev"] == "pull" and e["res"] == "item"),
                "us": sum(1 for e in log if e["ev"] == "pull" and e["res"] == "stop"),
                "uc": self._closes()}

    def _closes(self):
        u = self.usrc
        if self.ukind == "agen" and u.state == "new" and u.gen.ag_frame is None:
            return 1   # an async generator closed before it ever ran: its body cannot notice
        return getattr(u, "closes", 0)

    def apply(self, a):
        op = a[0]
        L = self.L
        if op == "borrow":
            self.nh += 1
            self.h[self.nh] = L.borrow(self.h[a[2]])
            return ("ok",)
        if op == "scope":
            self.nh += 1
            cm = L.scoped_iter(self.h[a[2]])
            r = self.run(cm.__aenter__())
            if r[0] != "done":
                return ("raised", r[1])
            self.scopes[self.nh] = cm
            self.h[self.nh] = r[1]
            return ("ok",)
        if op == "next":
            r = self.run(self.h[a[1]].__anext__())
            return self._item(r)
        if op == "aclose":
            h = self.h[a[1]]
            # alternate between h.aclose() and iter(h).aclose()
            target = h if a[1] % 2 else h.__aiter__()
            r = self.run(target.aclose())
            return ("ok",) if r[0] == "done" else ("raised", r[1])
        if op == "tool":
            h, j, which = self.h[a[1]], a[2], a[3]
            if which == "islice":
                r = self.run(L.list(L.islice(h, j)))
            else:
                r = self.run(L.list(L.zip(h, range(j))))
            if r[0] != "done":
                return ("raised", r[1])
            got = [x.p if isinstance(x, Item) else x[0].p for x in r[1]]
            return ("items", got)
        if op == "send":
            h = self.h[a[1]]
            if not hasattr(h, "asend"):
                return ("noattr",)
            r = self.run(h.asend(None))
            return self._item(r)
        if op == "exit":
            hid, how = a[1], a[3]
            cm = self.scopes.pop(hid)
            exc = None if how == "normal" else BlockError() if how == "raise" else Cancelled()
            r = self.run(cm.__aexit__(type(exc) if exc else None, exc, None))
            if r[0] != "done":
                return ("raised", r[1])
            return ("ok", bool(r[1]))
        raise ValueError(op)

    @staticmethod
    def _item(r):
        if r[0] == "done":
            return ("item", r[1].p if isinstance(r[1], Item) else -1)
        if isinstance(r[1], StopAsyncIteration):
            return ("item", 0)
        return ("raised", r[1])


def cfg_text(datalen, maxh, maxops, scope, borrow, usend, edges=True):
    b = lambda x: "TRUE" if x else "FALSE"  # noqa: E731
    return f"""CONSTANTS
  DataLen = {datalen}
  MaxHandles = {maxh}
  MaxOps = {maxops}
  AllowScope = {b(scope)}
  AllowBorrow = {b(borrow)}
  USend = {b(usend)}
  EdgeFile = "{'@OUT:edges.ndjson@' if edges else ''}"
INIT Init
NEXT Next_
VIEW View
CHECK_DEADLOCK FALSE
INVARIANT BorrowNeverCloses
INVARIANT InsideBlockOpen
INVARIANT InOrder
""" + ("ACTION_CONSTRAINT EmitEdge\n" if edges else "")


# (DataLen, MaxHandles, MaxOps, scope, borrow, usend, underlying kinds)
TIERS = {
    "C07": {"quick": [(2, 2, 4, False, True, False, ["cls", "agen", "throwonly", "noclose"]), (2, 1, 4, False, True, True, ["send"])],
            "thorough": [(3, 3, 5, False, True, False, ["cls", "agen", "throwonly", "noclose"]), (3, 2, 5, False, True, True, ["send"]), (2, 2, 6, False, True, False, ["cls"])]},
    "C08": {"quick": [(2, 2, 4, True, False, False, ["cls", "agen"]), (2, 2, 4, True, True, False, ["cls"])],
            "thorough": [(3, 3, 5, True, False, False, ["cls", "agen"]), (3, 3, 5, True, True, False, ["cls", "agen"]), (2, 2, 6, True, True, True, ["send"])]},
}


def replay_path(args):
    prop, datalen, ukind, path = args
    L = tm.load_lib()
    s = HSys(L, datalen, ukind)
    name = "borrow" if prop == "C07" else "scoped_iter"

    def bad(cls, j, detail):
        return [(f"{prop}/{name}/{cls}", {"engine": "handles", "spec": "Handles", "cfg": {"datalen": datalen, "underlying": ukind},
                                         "path": [e["a"] for e in path], "step": j, **detail})]

    closed = set()   # handles ended explicitly (aclose by user/tool, leaving their scope)
    for j, e in enumerate(path):
        a = e["a"]
        if a[0] in ("aclose", "tool") and e["f"]["kind"][a[1] - 1] == "borrow":
            closed.add(a[1])
        if a[0] == "exit":
            closed.add(a[1])
            p_ = e["f"]["par"][a[1] - 1]
            if p_ and e["f"]["kind"][p_ - 1] == "borrow":
                closed.add(p_)
        try:
            r = s.apply(a)
        except Exception as ex:  # noqa: BLE001
            return bad("operation-raises-" + type(ex).__name__, j, {"observed": repr(ex)})
        if r[0] == "raised":
            return bad("operation-raises-" + type(r[1]).__name__, j, {"observed": repr(r[1]), "op": a})
        exp_t = e["t"]
        c = s.counts()
        if a[0] in ("next", "send"):
            if r != ("item", a[2]):
                cls = "closed-handle-yields" if a[2] == 0 and r[1] else "item-lost-or-reordered"
                return bad(cls, j, {"expected": a[2], "observed": r, "op": a})
        if a[0] == "tool":
            k = e["t"]["up"] - e["f"]["up"]
            exp_items = list(range(e["f"]["up"] + 1, e["f"]["up"] + 1 + min(a[2], k)))
            if r[1] != exp_items:
                return bad("tool-sees-wrong-items", j, {"expected": exp_items, "observed": r[1], "op": a})
        exp_c = {"up": exp_t["up"], "us": exp_t["us"], "uc": exp_t["uc"]}
        if ukind == "agen":   # a finished async generator reports its end only once
            exp_c["us"] = c["us"] = 0
            if s.usrc.state == "exhausted":   # ... and cannot observe an aclose() after it has finished
                c["uc"] = exp_c["uc"]
        if c != exp_c:
            if c["uc"] != exp_c["uc"]:
                cls = "underlying-closed" if c["uc"] > exp_c["uc"] else "underlying-not-closed-at-exit"
                if exp_c["uc"] and c["uc"] > exp_c["uc"]:
                    cls = "underlying-closed-twice"
            elif c["up"] != exp_c["up"]:
                cls = "underlying-advanced-by-ended-handle" if c["up"] > exp_c["up"] else "underlying-not-advanced"
            else:
                cls = "end-detections-differ"
            return bad(cls, j, {"expected": exp_c, "observed": c, "op": a})
    # afterwards: every ended handle yields nothing and does not touch U; U serves its owner in order
    last_t = path[-1]["t"] if path else None
    if last_t is not None:
        for hid in range(1, last_t["nh"] + 1):
            if not last_t["alive"][hid - 1]:
                before = s.counts()
                r = s.run(s.h[hid].__anext__())
                if not (r[0] == "raised" and isinstance(r[1], StopAsyncIteration)):
                    return bad("ended-handle-yields", len(path), {"handle": hid, "observed": repr(r)})
                if s.counts() != before:
                    return bad("ended-handle-advances-underlying", len(path), {"handle": hid, "expected": before, "observed": s.counts()})
                for meth in ("asend", "athrow"):
                    if (hid in closed or last_t["shut"][hid - 1]) and hasattr(s.h[hid], meth):
                        arg = (None,) if meth == "asend" else (BlockError(),)
                        before_log = len(s.rec.log)
                        s.run(getattr(s.h[hid], meth)(*arg))
                        if len(s.rec.log) != before_log:
                            return bad(f"ended-handle-{meth}-reaches-underlying", len(path), {"handle": hid, "observed": s.rec.log[before_log:]})
        if last_t["uc"] == 0:
            want = last_t["up"] + 1
            r = s.run(s.U.__anext__())
            got = r[1].p if r[0] == "done" else 0
            if want <= len(s.usrc.items) and got != want:
                return bad("underlying-does-not-continue", len(path), {"expected": want, "observed": repr(r)})
    if not s.rec.acct.ok():
        return bad("foreign-suspension", len(path), {})
    return []


def check(prop, tier, seed, into=None):
    v = into or Verdict(prop, tier, seed)
    tot = {"states": 0, "transitions": 0, "paths": 0, "replays": 0}
    for (datalen, maxh, maxops, scope, borrow, usend, ukinds) in TIERS[prop][tier]:
        res = run_tlc("Handles", cfg_text(datalen, maxh, maxops, scope, borrow, usend), outfiles=["edges.ndjson"], timeout=3000)
        tot["states"] += res["distinct"]
        tot["transitions"] += res["generated"]
        edges = read_ndjson(res["files"]["edges.ndjson"])
        paths = build_paths(edges, lambda f: f["n"] == 0)
        tot["paths"] += len(paths)
        jobs = [(prop, datalen, uk, p) for p in paths for uk in ukinds]
        with mp.Pool(min(16, os.cpu_count() or 4)) as pool:
            for out in pool.imap_unordered(replay_path, jobs, chunksize=max(1, len(jobs) // 256)):
                for sig, d in out:
                    v.violation(sig, d)
        tot["replays"] += len(jobs)
        if paths:
            v.sample({"underlying": ukinds, "history": [e["a"] for e in paths[len(paths) // 2]]})
    v.assumptions += ["tools that close their input are represented by islice (takes exactly j) and zip (pulls one more than it yields)",
                      "the underlying iterator is an instrumented class-based iterator or async generator with aclose"]
    return v.finish({
        "states": tot["states"], "transitions": tot["transitions"], "traces_validated_against_impl": tot["replays"],
        "edge_cover_paths": tot["paths"], "exhaustive": True, "evaluations": tot["replays"], "distinct_nontrivial": tot["paths"],
        "rule": "one replay per transition of the Handles state graph and underlying kind (shortest history + that operation + probes of every ended handle)",
        "checker_cmd": "tlc spec/Handles.tla",
    })
