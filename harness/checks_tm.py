"""Checks decided with spec/ToolMachine.tla: C01, C02, C04, C05, C06 (+ shared by C03/C17/C18).

spec -> code: TLC enumerates every case (input x parameters x consumer prefix x fault
position) within the tier's constants and checks the declarative invariants; every case
is replayed into asyncstdlib (verdict) and into the synchronous standard library
(honesty of the spec; disagreement = machinery error, exit 2).
"""
from __future__ import annotations

import json
import multiprocessing as mp
import os
import random

from . import tm
from .report import Verdict
from .tlc import MachineryError, read_ndjson, run_tlc

ITER_TOOLS = ["zip", "map", "filter", "filterfalse", "enumerate", "iter", "accumulate", "batched",
              "chain", "compress", "cycle", "dropwhile", "takewhile", "islice", "pairwise",
              "starmap", "zip_longest", "merge"]
AGG_TOOLS = ["all", "any", "sum", "reduce", "min", "max", "list", "tuple", "set", "dict",
             "sorted", "nlargest", "nsmallest"]
LAZY_TOOLS = ITER_TOOLS + ["all", "any", "anext"]  # C05 scope (anext: one pull per call)
ADAPTERS = ["any_iter", "await_each", "apply", "sync"]  # C19

INVARIANTS = ["NoUseAfterFault", "NoPullAfterStop", "DeclZip", "DeclZipStrict", "DeclChain",
              "DeclISlice", "DeclMerge", "DeclSorted", "DeclMinMax", "DeclPairwise", "DeclBatched",
              "DeclFilter", "DeclMap", "DeclStarMap", "DeclEnumerate", "DeclTakeDrop", "DeclCompress", "DeclAccumulate",
              "DeclCycle", "DeclZipLongest", "DeclGrouper"]

TIERS = {
    "quick": {"MaxLen": 3, "MaxSrc": 2},
    "thorough": {"MaxLen": 4, "MaxSrc": 3},
}


def cfg_text(tools, maxlen, maxsrc, faults=True, prefixes=True):
    tl = ", ".join(f'"{t}"' for t in tools)
    inv = "\n".join(f"INVARIANT {i}" for i in INVARIANTS)
    return f"""CONSTANTS
  MaxLen = {maxlen}
  MaxSrc = {maxsrc}
  Tools = {{{tl}}}
  Faults = {"TRUE" if faults else "FALSE"}
  Prefixes = {"TRUE" if prefixes else "FALSE"}
  OutFile = "@OUT:cases.ndjson@"
INIT Init
NEXT Next
CHECK_DEADLOCK FALSE
{inv}
INVARIANT Emit
"""


def generate(tier, tools, faults=True, prefixes=True):
    """Run TLC per tool group (keeps files small); return (cases, stats)."""
    c = TIERS[tier]
    cases, stats = [], {"states": 0, "transitions": 0, "tlc_wall": 0.0, "tlc_runs": 0}
    for t in tools:
        maxlen, maxsrc = c["MaxLen"], c["MaxSrc"]
        res = run_tlc("ToolMachine", cfg_text([t], maxlen, maxsrc, faults, prefixes),
                      outfiles=["cases.ndjson"], timeout=3000)
        path = res["files"]["cases.ndjson"]
        got = read_ndjson(path) if os.path.exists(path) else []
        if not got:
            raise MachineryError(f"TLC produced no case for {t}")
        cases.extend(got)
        stats["states"] += res["distinct"]
        stats["transitions"] += res["generated"]
        stats["tlc_wall"] += 0 if res.get("cached") else res["wall"]
        stats["tlc_runs"] += 1
    return cases, stats


# documented deviations of the spec from the oracle interpreter's standard library
def twin_expected(case, exp_log):
    cfg = case["cfg"]
    if cfg["tool"] == "accumulate" and not cfg["par"]["init"] and exp_log and exp_log[-1] == {"ev": "raise", "x": "TypeError"}:
        # documented: accumulate of an empty iterable without initial raises TypeError
        return exp_log[:-1] + [{"ev": "end"}]
    return exp_log


def twin_applicable(case):
    cfg = case["cfg"]
    if cfg["tool"] in tm.NO_TWIN:
        return False  # asynctools has no standard-library counterpart: the spec is the reference
    if cfg["tool"] == "batched" and cfg["par"]["strict"]:
        return False  # itertools.batched(strict=) does not exist in the 3.12 oracle
    return True


def case_kind(case):
    last = case["log"][-1]
    if case["fault"]:
        return "fault"
    if last["ev"] == "close":
        # cycle never ends by itself: two whole rounds and one more item count as a full consumption
        if case["cfg"]["tool"] == "cycle" and case["cfg"]["data"][0] and case["nnext"] >= 2 * len(case["cfg"]["data"][0]) + 1:
            return "full"
        return "prefix"
    return "full"


def result_projection(log):
    """What an aggregation delivers: its return value or the exception type."""
    e = log[-1]
    if e["ev"] == "return":
        return ("return", e["v"])
    if e["ev"] == "raise":
        return ("raise", e["x"])
    if e.get("res") == "raise":
        return ("fault",)
    return (e["ev"],)


def judge(args):
    """Guarded replay of one case: a library operation that never returns is a finding, not a hung check."""
    from .driver import Hang, guarded  # noqa: PLC0415
    try:
        return guarded(30.0)(_judge)(args)
    except Hang:
        case, props, _ = args
        tool = case["cfg"]["tool"]
        prop = sorted(props)[0]
        return {"viol": [(prop, f"{prop}/{tool}/operation-never-returns",
                          {"engine": "toolmachine", "cfg": case["cfg"], "nnext": case["nnext"], "fault": tm.fault_plan(case),
                           "observed": "30 s of CPU time without suspending or returning"})], "mach": [], "n": {}}


def _judge(args):
    """Replay one case; return {"viol": [(prop, signature, detail)], "mach": [...], "n": counters}."""
    case, props, opts = args
    L = tm.load_lib()
    cfg = case["cfg"]
    tool = cfg["tool"]
    kind = case_kind(case)
    exp_log = tm.noneify(case["log"], cfg["par"].get("dflt") == "none") if tool in tm.NONE_TOOLS else case["log"]
    if tool in tm.NONE_POS_TOOLS and cfg["data"] and len(cfg["data"][0]) >= 1:
        exp_log = tm.none_at(exp_log, p=tm.none_p(len(cfg["data"][0])))
    if cfg["par"].get("inone"):      # reduce(..., initial=None): the expected log with the initial object spelled None
        exp_log = tm.noneify_nodes(case["log"], ("initial",))
    out = {"viol": [], "mach": [], "n": {}}

    def cnt(k, v=1):
        out["n"][k] = out["n"].get(k, 0) + v

    def viol(prop, cls, detail):
        out["viol"].append((prop, f"{prop}/{tool}/{cls}", {"engine": "toolmachine", "spec": "ToolMachine",
                                                           "cfg": cfg, "nnext": case["nnext"], "fault": tm.fault_plan(case),
                                                           **detail}))

    is_agg = tool in tm.AGGREGATIONS
    lazy = tool in LAZY_TOOLS or tool in ADAPTERS

    # ---- spec <-> stdlib twin (machinery)
    if opts.get("twin", True) and twin_applicable(case):
        try:
            o = tm.execute(case, tm.Twin, sync=True)
            if lazy:
                e, g = tm.lazy_projection(twin_expected(case, exp_log)), tm.lazy_projection(o.log)
            else:
                e, g = result_projection(exp_log), result_projection(o.log)
            if kind == "fault":
                ok = (e == g) and o.exc_same is True
            else:
                ok = e == g
            if not ok:
                out["mach"].append({"what": "spec disagrees with stdlib twin", "cfg": cfg, "nnext": case["nnext"],
                                    "fault": tm.fault_plan(case), "expected": e, "twin": g, "exc_same": o.exc_same})
            cnt("twin_replays")
        except Exception as ex:  # noqa: BLE001
            out["mach"].append({"what": f"twin crashed: {ex!r}", "cfg": cfg})

    # ---- spec -> asyncstdlib
    want = set(props)
    fault_kinds = ["exc"]
    if kind == "fault" and ("C06" in want or "C04" in want):
        fault_kinds = ["exc", "typeerr"]
        if len(case["log"]) % 2 == 0:
            fault_kinds.append("baseexc")      # a failure that is no Exception (every other case)
        if "C06" in want:
            # exception classes the library raises or catches itself somewhere (ValueError, KeyError): the user's own
            # instance is not to be mistaken for them.  Aggregations get both, iterator tools alternate.
            fault_kinds += ["valueerr", "lookuperr"] if is_agg else [("valueerr", "lookuperr")[len(case["log"]) % 2]]
        if is_agg and case["log"][-1]["ev"] == "call" and "C06" in want:
            # a callable of an aggregation may fail with the very exception that ends an iteration: not the
            # end of the input (aggregations are no generators, nothing converts it on the way out)
            # (a StopIteration cannot leave the user's own `async def` callable: Python turns it into RuntimeError there)
            fault_kinds += ["stopasync"]
    flavours = [{"src": "cls", "call": "asyncdef"}]
    if "C04" in want:
        flavours.append({"src": "agen", "call": "asyncdef"})
        flavours.append({"src": "clsgetattr", "call": "asyncdef"})     # aclose reachable through __getattr__ only
        flavours.append({"src": "clslazy", "call": "asyncdef"})
        nsrc_ = len(cfg["data"])
        if nsrc_ >= 2 and tool != "iter":
            # an iterator that cannot be closed among closable ones must not stop the cleanup
            flavours.append({"src": ["clsnoclose"] + ["cls"] * (nsrc_ - 1), "call": "asyncdef"})
            flavours.append({"src": ["cls"] * (nsrc_ - 1) + ["clsnoclose"], "call": "asyncdef"})
            # sources whose aclose() fails: every one of them is closed nevertheless
            flavours.append({"src": ["clsraiseclose"] * nsrc_, "call": "asyncdef"})
    if "C06" in want and kind == "fault":
        flavours.append({"src": "clstruthy", "call": "asyncdef"})
        if case["log"][-1]["ev"] == "call":
            flavours.append({"src": "list", "call": "asyncdef"})     # a failing callable over a plain (sized) list
        elif tool != "anext":
            flavours.append({"src": "iter", "call": "asyncdef"})     # a synchronous iterator that fails

    if "C04" in want or ("C01" in want and kind == "full" and not is_agg and tool != "iter"):
        # iterators that are falsy and equal to one another: iterated, told apart and closed like any others
        if not any(f["src"] == "clstruthy" for f in flavours):
            flavours.append({"src": "clstruthy", "call": "asyncdef"})
    if "C01" in want and kind == "full" and not is_agg and tool != "iter" and not cfg["par"].get("alias"):
        flavours.append({"src": "list", "call": "asyncdef"})    # plain lists, edited by the caller once a tool is through with them
        if any(e["ev"] == "call" for e in case["log"]):
            flavours.append({"src": "cls", "call": "objfalsy"})   # "all predicates/functions": also a callable object that is falsy
    if "C02" in want and is_agg:
        # the input given as async iterator, list, or one-shot iterator
        flavours = [{"src": f, "call": "asyncdef"} for f in ("cls", "list", "iter")]
        if any(e["ev"] == "call" for e in case["log"]):
            flavours.append({"src": "cls", "call": "def"})      # key / function given as a plain synchronous callable
    if "C19" in want:
        # the shapes of the quantifier: list / iterator / async iterator, every callable flavour
        fault_kinds = ["exc", "typeerr"] if kind == "fault" else ["exc"]
        if tool == "sync":
            flavours = [{"src": "cls", "call": c} for c in ("asyncdef", "def", "partial", "obj", "aw", "cls", "mixed", "mixed2", "defwraps", "clsnew", "objfalsy")]
        elif tool == "any_iter":
            flavours = [{"src": f, "call": "asyncdef"} for f in ("cls", "agen", "list", "iter")]
    for fl in flavours:
        for fk in fault_kinds:
            if fl["src"] != "cls" and not ({"C04", "C19", "C02", "C06", "C01"} & want):
                continue
            if isinstance(fl["src"], list):
                fl = dict(fl, outer="cls")
            o = tm.execute(case, L, flav=fl, susp=opts.get("susp", 1), fault_kind=fk)
            cnt("impl_replays")
            canonical = fl["src"] == "cls" and fk == "exc"
            obs_log = o.log
            # C01: items and ending at full consumption
            if "C01" in want and (canonical or fl["src"] in ("list", "clstruthy")) and fk == "exc" and kind == "full" and not is_agg:
                ey, oy = tm.yields(exp_log), tm.yields(obs_log)
                cls = tm.items_diff_class(ey, oy)
                if cls:
                    viol("C01", cls + ("+list-input" if fl["src"] == "list" else "+falsy-iterators" if fl["src"] == "clstruthy" else ""), {"projection": "yields", "expected": ey, "observed": oy, "input": fl["src"]})
                ee, oe = tm.ending(exp_log), tm.ending(obs_log)
                if ee != oe:
                    viol("C01", f"ending-{'-'.join(map(str, oe))}-instead-of-{'-'.join(map(str, ee))}",
                         {"projection": "ending", "expected": ee, "observed": oe})
                if o.mutations:
                    viol("C01", "argument-mutated", {"projection": "mutations", "expected": [], "observed": o.mutations, "input": fl["src"]})
                cnt("C01_cases")
            # C02: result of aggregations, argument objects untouched
            if "C02" in want and fk == "exc" and kind == "full" and is_agg:
                e, g = result_projection(exp_log), result_projection(obs_log)
                if e != g:
                    if e[0] == g[0] == "return":
                        cls = "wrong-result"
                        if isinstance(e[1], list) and isinstance(g[1], list):
                            cls = "result-" + (tm.items_diff_class(e[1], g[1]) or "differs")
                        elif isinstance(e[1], dict) and isinstance(g[1], dict) and e[1].get("k") == g[1].get("k"):
                            cls = "wrong-one-of-equal-elements"
                    else:
                        cls = f"{g[0]}-instead-of-{e[0]}"
                    if fl["src"] != "cls":
                        cls += "+" + {"list": "list-input", "iter": "one-shot-iterator-input"}[fl["src"]]
                    viol("C02", cls, {"projection": "result", "expected": e, "observed": g, "input": fl["src"]})
                keycalls_e = [x for x in exp_log if x["ev"] == "call"]
                keycalls_o = [x for x in obs_log if x["ev"] == "call"]
                dumps = lambda x: json.dumps(x, sort_keys=True)  # noqa: E731
                if sorted(map(dumps, keycalls_e)) != sorted(map(dumps, keycalls_o)):
                    extra = [x for x in keycalls_o if x not in keycalls_e]
                    cls = "default-passed-to-key" if any(a.get("f") == "default" for x in extra for a in x["a"] if isinstance(a, dict)) else "callable-invocations-differ"
                    viol("C02", cls, {"projection": "calls", "expected": keycalls_e, "observed": keycalls_o})
                if o.mutations:
                    viol("C02", "argument-mutated", {"projection": "mutations", "expected": [], "observed": o.mutations})
                cnt("C02_cases")
            # C05: the whole interleaving, for every consumer prefix
            if "C05" in want and canonical and kind in ("full", "prefix") and lazy:
                e, g = tm.lazy_projection(exp_log), tm.lazy_projection(obs_log)
                cls, d = tm.lazy_diff_class(e, g)
                if cls:
                    viol("C05", cls, {"projection": "pulls+calls+yields", "step": d[0], "expected": d[1], "observed": d[2],
                                      "expected_log": e, "observed_log": g})
                cnt("C05_cases")
            # C19: adapters -- the whole await/pull/call/yield interleaving and the result
            if "C19" in want and tool in ADAPTERS:
                # ... including every await of a user awaitable (which one, and when)
                keep = ("next", "pull", "call", "yield", "end", "raise", "return", "await")
                e, g = [x for x in exp_log if x["ev"] in keep], [x for x in obs_log if x["ev"] in keep]
                if fl["src"] == "list":   # pulls from a plain list are invisible
                    e = [x for x in e if x["ev"] != "pull"]
                    g = [x for x in g if x["ev"] != "pull"]
                if kind == "fault":
                    if o.fault_fired and o.exc_same is not True:
                        viol("C19", "exception-not-propagated-unchanged", {"expected": "the injected object", "observed": {"ending": o.ending, "type": o.exc_type}})
                    g = [x for x in g if x.get("ev") != "raise"]
                cls, d = tm.lazy_diff_class(e, g)
                if cls and not (kind == "fault" and not o.fault_fired):
                    viol("C19", cls, {"projection": "awaits+pulls+calls+yields", "step": d[0], "expected": d[1], "observed": d[2],
                                      "expected_log": e, "observed_log": g})
                cnt("C19_cases")
            # C06: a failing use surfaces unchanged, nothing is used afterwards
            if "C06" in want and fl["src"] in ("cls", "clstruthy", "list", "iter") and kind == "fault":
                if not o.fault_fired and fl["src"] == "iter":
                    # a synchronous iterator is read through an adapter: once it has reported its end, asking again
                    # does not reach it any more -- a failure placed at such a second look has no subject here
                    cnt("C06_fault_behind_adapter")
                elif not o.fault_fired:
                    # the implementation never performs the use at which the standard library fails:
                    # it finishes (or goes on) where the counterpart raises
                    cnt("C06_fault_not_reached")
                    viol("C06", "failing-use-never-reached", {"projection": "fault", "expected": tm.fault_plan(case),
                                                            "observed": {"ending": o.ending}, "observed_log": obs_log})
                else:
                    ey, oy = tm.yields(exp_log), tm.yields(obs_log)
                    cls = tm.items_diff_class(ey, oy)
                    if cls:
                        viol("C06", f"items-before-failure-{cls}", {"projection": "yields", "expected": ey, "observed": oy, "fault_kind": fk})
                    if o.exc_same is not True:
                        how = "swallowed" if o.ending in ("end", "return", None, "close") or o.exc_type is None else "replaced"
                        viol("C06", f"exception-{how}", {"projection": "exception", "expected": "the injected object",
                                                        "observed": {"ending": o.ending, "type": o.exc_type}, "fault_kind": fk,
                                                        "observed_log": obs_log})
                    if o.uses_after_fault:
                        viol("C06", "use-after-failure", {"projection": "uses", "expected": 0, "observed": o.uses_after_fault,
                                                          "fault_kind": fk, "observed_log": obs_log})
                cnt("C06_cases")
            # C04: every passed async iterator released at completion
            never_advanced_handle = tool == "chain" and not cfg["par"]["outer"] and case["nnext"] == 0 and o.ending == "close"
            if "C04" in want and (case["nnext"] >= 1 or never_advanced_handle) and o.ending is not None:
                bad = sorted(i for i, r in o.released.items() if not r)
                if tool == "chain" and cfg["par"]["outer"]:
                    # documented ownership rule of chain.from_iterable: only the outer
                    # iterable and the inner iterables already fetched from it are owed
                    fetched = sum(1 for e in obs_log if e["ev"] == "pull" and e["src"] == 0 and e["res"] == "item")
                    bad = [i for i in bad if i == 0 or i <= fetched]
                if bad:
                    how = {"end": "exhaustion", "return": "return", "raise": "raise", "fault": "failure",
                           "close": "close", None: "open"}.get(o.ending, o.ending)
                    who = "failed-source" if any(o.states.get(i) == "failed" for i in bad) else \
                          ("unstarted-source" if all(o.states.get(i) == "new" for i in bad) else "source")
                    if never_advanced_handle:
                        how = "close-of-never-advanced-handle"
                    if fl["src"] == "clsgetattr":
                        how += "+aclose-only-through-getattr"
                    viol("C04", f"unreleased-{who}-after-{how}", {"projection": "lifecycle", "expected": "closed|exhausted",
                                                                   "observed": o.states, "flavour": fl["src"], "fault_kind": fk,
                                                                   "observed_log": obs_log})
                if o.close_error and "clsraiseclose" not in (fl["src"] if isinstance(fl["src"], list) else [fl["src"]]):
                    viol("C04", "close-raises", {"projection": "aclose", "expected": None, "observed": o.close_error})
                cnt("C04_cases")
            if not o.acct.ok():
                out.setdefault("c17", []).append(o.acct.describe())
    return out


def run_cases(cases, props, opts=None, procs=None):
    opts = opts or {}
    procs = procs or min(16, os.cpu_count() or 4)
    jobs = [(c, props, opts) for c in cases]
    results = {"viol": [], "mach": [], "n": {}, "c17": []}
    if len(jobs) < 200 or procs == 1:
        it = map(judge, jobs)
        pool = None
    else:
        pool = mp.Pool(procs)
        it = pool.imap_unordered(judge, jobs, chunksize=max(1, len(jobs) // (procs * 8)))
    try:
        for r in it:
            results["viol"].extend(r["viol"])
            results["mach"].extend(r["mach"])
            results["c17"].extend(r.get("c17", []))
            for k, v in r["n"].items():
                results["n"][k] = results["n"].get(k, 0) + v
    finally:
        if pool:
            pool.close()
            pool.join()
    return results


# --------------------------------------------------------------------------- code -> spec (beyond the bounds)


RANDOM_AGG = ["sum", "reduce", "min", "max", "list", "tuple", "sorted", "nlargest", "nsmallest"]


def random_agg_case(rnd):
    """An aggregation on an input longer than the exhaustive bounds (up to 12 items, three key classes)."""
    tool = rnd.choice(RANDOM_AGG)
    seq = lambda keys, hi=12: [rnd.choice(keys) for _ in range(rnd.randint(0, hi))]  # noqa: E731
    b = lambda: rnd.random() < 0.5  # noqa: E731
    par, data = {"z": 0}, [seq([1])]
    if tool == "sum":
        par = {"startv": rnd.choice(["zero", "obj"])}
    elif tool == "reduce":
        par = {"init": b(), "inone": False}
    elif tool in ("min", "max"):
        key = b()
        par = {"key": key, "kf": rnd.choice(["key", "key2"]) if key else "key", "dflt": rnd.choice(["no", "fresh"])}
        data = [seq([1, 2, 3] if key else [1, 2])]
    elif tool == "sorted":
        par, data = {"key": b(), "rev": b()}, [seq([1, 2, 3])]
    elif tool in ("nlargest", "nsmallest"):
        par, data = {"key": b(), "n": rnd.randint(0, 13)}, [seq([1, 2, 3])]
    return {"cfg": {"tool": tool, "par": par, "data": data}, "fault": 0, "nnext": 1, "closes": False, "log": [{"ev": "end"}]}


def random_case(rnd, faults, agg=False):
    """A configuration outside ConfigsOf: more/longer sources, larger parameters."""
    if agg:
        return random_agg_case(rnd)
    tool = rnd.choice(ITER_TOOLS + ["all", "any"])
    L_ = lambda hi=8: rnd.randint(0, hi)  # noqa: E731
    seq = lambda keys, hi=8: [rnd.choice(keys) for _ in range(L_(hi))]  # noqa: E731
    b = lambda: rnd.random() < 0.5  # noqa: E731
    par, data = {"z": 0}, [seq([1])]
    if tool == "zip":
        par, data = {"strict": b()}, [seq([1, 1, 1, 0]) for _ in range(rnd.randint(0, 4))]
    elif tool == "map":
        data = [seq([1]) for _ in range(rnd.randint(1, 3))]
    elif tool in ("filter", "filterfalse"):
        par, data = {"pred": b()}, [seq([0, 1], 10)]
    elif tool == "enumerate":
        par = {"start": rnd.choice([0, 1, 7, 100])}
    elif tool == "iter":
        par, data = {"sent": rnd.choice(["eq", "ident"])}, [seq([1, 1, 1, 2, 3], 10)]
    elif tool == "accumulate":
        par = {"init": b(), "fn": rnd.choice(["func", "add"])}
    elif tool == "batched":
        par = {"n": rnd.randint(1, 6), "strict": False}
        data = [seq([1], 12)]
    elif tool == "chain":
        par, data = {"outer": b()}, [seq([1], 5) for _ in range(rnd.randint(0, 4))]
    elif tool == "compress":
        data = [seq([1], 9), seq([0, 1], 9)]
    elif tool in ("dropwhile", "takewhile", "all", "any"):
        data = [seq([0, 1, 1] if tool in ("takewhile", "all") else [0, 0, 1], 10)]
    elif tool == "islice":
        par = {"start": rnd.choice([-1, 0, 1, 2, 3, 5, 6]), "stop": rnd.choice([-1, 0, 1, 3, 4, 6, 8, 9]), "step": rnd.choice([-1, 1, 2, 3, 4])}
        data = [seq([1], 10)]
    elif tool == "zip_longest":
        par, data = {"fill": rnd.choice(["fresh", "first"])}, [seq([1], 6) for _ in range(rnd.randint(0, 4))]
    elif tool == "merge":
        rev = b()
        par = {"key": b(), "rev": rev}
        data = [sorted(seq([1, 2, 3, 4], 6), reverse=rev) for _ in range(rnd.randint(0, 4))]
    elif tool == "cycle":
        data = [seq([1], 4)]
    total = sum(len(d) for d in data)
    case = {"cfg": {"tool": tool, "par": par, "data": data}, "fault": 0}
    if tool == "cycle":
        case["nnext"] = rnd.randint(0, 12)
        case["closes"] = True
    elif rnd.random() < 0.5:
        # "until exhaustion": no finite tool yields more than its inputs hold (+ initial, + the ending step)
        case["nnext"], case["closes"] = total + len(data) + 4, False
    else:
        case["nnext"], case["closes"] = rnd.randint(0, total + 2), True
    if faults:
        if rnd.random() < 0.6 and data:
            i = rnd.randint(1, len(data))
            case["plan"] = ["pull", 0 if (tool == "chain" and par.get("outer") and rnd.random() < 0.3) else i, rnd.randint(1, len(data[i - 1]) + 1)]
        else:
            f = {"map": "func", "starmap": "func", "accumulate": "func", "filter": "pred", "filterfalse": "pred", "dropwhile": "pred",
                 "takewhile": "pred", "merge": "key", "iter": "subject"}.get(tool)
            if f:
                case["plan"] = ["call", f, rnd.randint(1, max(1, total))]
    case["log"] = [{"ev": "close"}] if case.get("closes") else [{"ev": "end"}]
    return case


def record_random(args):
    seed, faults = args[0], args[1]
    rnd = random.Random(seed)
    case = random_case(rnd, faults, agg=len(args) > 2 and args[2])
    L = tm.load_lib()
    o = tm.execute(case, L, susp=rnd.choice([0, 1]))
    log = tm.lazy_projection(o.log) + ([{"ev": "close"}] if o.ending == "close" else [])
    if case["cfg"]["tool"] in tm.NONE_POS_TOOLS and case["cfg"]["data"] and len(case["cfg"]["data"][0]) >= 1:
        np_ = tm.none_p(len(case["cfg"]["data"][0]))
        log = tm.none_back(log, case["cfg"]["data"][0][np_ - 1], p=np_)
    if case["cfg"]["tool"] in tm.NONE_TOOLS:     # None items back to what the spec calls them
        from itertools import count  # noqa: PLC0415
        ctr = {}

        def back(v, where):
            if v is None and where is not None:
                return {"s": where[0], "p": where[1], "k": 0}
            return v
        # the j-th element of a yielded tuple comes from source j, position = number of yields so far
        ny = 0
        for e in log:
            if e["ev"] == "yield":
                ny += 1
                e["v"] = [back(x, (j + 1, ny)) for j, x in enumerate(e["v"])]
    return {"cfg": case["cfg"], "log": log, "nnext": case["nnext"], "closes": case.get("closes"), "plan": case.get("plan"),
            "fault_fired": o.fault_fired, "exc_same": o.exc_same, "uses_after_fault": o.uses_after_fault, "ending": o.ending,
            "released": o.released, "states": o.states, "close_error": o.close_error, "started": o.started}


ITEMS_EVENTS = ("next", "yield", "end", "raise", "return", "close")


def beyond_bounds(prop, tier, seed, v):
    """Record random executions beyond the exhaustive bounds and let TLC judge them."""
    from .tracecheck import validate  # noqa: PLC0415

    n = {"quick": 1500, "thorough": 30000}[tier]
    faults = prop == "C06"
    agg = prop == "C02"
    with mp.Pool(min(16, os.cpu_count() or 4)) as pool:
        recs = pool.map(record_random, [(seed * 2654435761 % (2 ** 31) + i, faults, agg) for i in range(n)], chunksize=64)
    if prop == "C06":
        recs = [r for r in recs if r["fault_fired"]]
        for r in recs:
            tool = r["cfg"]["tool"]
            d = {"engine": "toolmachine", "mode": "random", "cfg": r["cfg"], "nnext": r["nnext"], "fault": r["plan"], "observed_log": r["log"][-6:]}
            if r["exc_same"] is not True:
                v.violation(f"C06/{tool}/exception-{'swallowed' if r['ending'] in ('end', 'close', 'return', None) else 'replaced'}", d)
            if r["uses_after_fault"]:
                v.violation(f"C06/{tool}/use-after-failure", d)
    if prop == "C04":
        for r in recs:
            if not r["started"] or r["ending"] is None:
                continue
            bad = sorted(i for i, ok in r["released"].items() if not ok)
            if r["cfg"]["tool"] == "chain" and r["cfg"]["par"].get("outer"):
                fetched = sum(1 for e in r["log"] if e["ev"] == "pull" and e["src"] == 0 and e["res"] == "item")
                bad = [i for i in bad if i == 0 or int(i) <= fetched]
            if bad:
                how = {"end": "exhaustion", "raise": "raise", "fault": "failure", "close": "close"}.get(r["ending"], str(r["ending"]))
                who = "unstarted-source" if all(r["states"].get(i) == "new" for i in bad) else "source"
                v.violation(f"C04/{r['cfg']['tool']}/unreleased-{who}-after-{how}",
                            {"engine": "toolmachine", "mode": "random", "cfg": r["cfg"], "nnext": r["nnext"], "fault": r["plan"], "observed": r["states"]})
        return {"random_executions": len(recs)}
    if prop == "C02":
        # results only (what C02 speaks of): how often an exhausted input is asked again is not part of it
        traces = [{"cfg": r["cfg"], "log": [e for e in r["log"] if e["ev"] in ITEMS_EVENTS]} for r in recs]
        proj = "items"
    elif prop == "C01":
        recs = [r for r in recs if not r["closes"]]
        traces = [{"cfg": r["cfg"], "log": [e for e in r["log"] if e["ev"] in ITEMS_EVENTS]} for r in recs]
        proj = "items"
    elif prop != "C02":
        traces = [{"cfg": r["cfg"], "log": r["log"]} for r in recs]
        proj = "all"
    tl = ", ".join(f'"{t}"' for t in (RANDOM_AGG if agg else ITER_TOOLS + ["all", "any"]))
    const = f'CONSTANTS\n  MaxLen = 12\n  MaxSrc = 4\n  Tools = {{{tl}}}\n  Faults = {"TRUE" if faults else "FALSE"}\n  Prefixes = TRUE\n  OutFile = ""\n  Proj = "{proj}"\n'
    # validate() writes {"cfg","ev"}: the ToolMachine trace spec reads .log
    rejected, st = validate("ToolMachineTrace", traces, spec="Spec2", extra_cfg=const)
    for idx, matched in sorted(rejected.items()):
        tr, r = traces[idx], recs[idx]
        bad = tr["log"][matched] if matched < len(tr["log"]) else {"ev": "missing-events"}
        kind = tm._kind(bad) if bad.get("ev") != "missing-events" else "missing-events"
        v.violation(f"{prop}/{tr['cfg']['tool']}/trace-rejected-at-{kind}",
                    {"engine": "toolmachine", "mode": "trace", "spec": "ToolMachineTrace", "projection": proj, "cfg": tr["cfg"], "nnext": r["nnext"],
                     "fault": r["plan"], "step": matched, "matched_prefix": tr["log"][max(0, matched - 6): matched], "rejected_event": bad})
    return {"random_executions": len(recs), "trace_validation": st}


SCOPE = {
    "C19": ADAPTERS,
    "C01": ITER_TOOLS,
    "C02": AGG_TOOLS,
    "C04": ITER_TOOLS + AGG_TOOLS,
    "C05": LAZY_TOOLS,
    "C06": ITER_TOOLS + AGG_TOOLS + ["anext"],
}


def equal_items_distinct_keys(L, prop):
    """Items that compare equal but whose KEYS differ (the key looks at a field equality ignores): seeded random data,
    the identical call made on the standard library; results compared object by object."""
    import heapq  # noqa: PLC0415
    from .driver import Accounting, Task  # noqa: PLC0415
    from .instruments import Item  # noqa: PLC0415
    out = []
    rnd = random.Random(20261003)

    def key(x):
        return x.p          # Item equality looks at k only

    def run(aw):
        r = Task(aw, Accounting()).run()
        return r[1] if r[0] == "done" else "raised:" + type(r[1]).__name__

    def ids(xs):
        return [(x.s, x.p) for x in xs] if isinstance(xs, (list, tuple)) else (xs.s, xs.p) if isinstance(xs, Item) else xs

    for trial in range(60):
        nsrc = rnd.choice([2, 3])
        pool = sorted(rnd.sample(range(1, 40), rnd.randint(3, 9)))
        srcs = [[] for _ in range(nsrc)]
        for p_ in pool:
            i = rnd.randrange(nsrc)
            srcs[i].append(Item(i + 1, p_, rnd.choice([1, 1, 2])))      # few distinct k: runs of equal items
        flat = [x for s_ in srcs for x in s_]
        rnd.shuffle(flat)
        if prop == "C01":
            for rev in (False, True):
                ss = [sorted(s_, key=key, reverse=rev) for s_ in srcs]
                want = ids(list(heapq.merge(*ss, key=key, reverse=rev)))
                got = ids(run(L.list(L.merge(*ss, key=key, reverse=rev))))
                if want != got:
                    out.append(("C01/merge/wrong-order+equal-items-with-distinct-keys", {"engine": "scenario", "reverse": rev, "expected": want, "observed": got}))
        else:
            import builtins  # noqa: PLC0415
            calls = {
                "sorted": (lambda: builtins.sorted(flat, key=key), lambda: L.sorted(flat, key=key)),
                "min": (lambda: builtins.min(flat, key=key), lambda: L.min(flat, key=key)),
                "max": (lambda: builtins.max(flat, key=key), lambda: L.max(flat, key=key)),
                "nlargest": (lambda: heapq.nlargest(3, flat, key=key), lambda: L.nlargest(flat, 3, key=key)),
                "nsmallest": (lambda: heapq.nsmallest(3, flat, key=key), lambda: L.nsmallest(flat, 3, key=key)),
            }
            for name, (tw, im) in calls.items():
                want, got = ids(tw()), ids(run(im()))
                if want != got:
                    out.append((f"C02/{name}/wrong-result+equal-items-with-distinct-keys", {"engine": "scenario", "expected": want, "observed": got}))
    seen, uniq = set(), []
    for sig, d in out:
        if sig not in seen:
            seen.add(sig)
            uniq.append((sig, d))
    return uniq


def tee_over_list(L):
    """tee over a plain list that its owner edits while the children are at different positions: every child sees the
    item the SOURCE handed out at that position (fetched once, buffered for the others) -- as with itertools.tee."""
    import itertools  # noqa: PLC0415
    from .driver import Accounting, Task  # noqa: PLC0415

    def one(it):
        r = Task(it.__anext__(), Accounting()).run()
        return r[1] if r[0] == "done" else "end"

    data = [1, 2, 3]
    a, b = itertools.tee(data, 2)
    want = [next(a)]
    data[0] = 10
    data[2] = 30
    want += [next(b), next(b), next(a), next(a), next(b)]
    data = [1, 2, 3]
    try:
        a, b = L.tee(data, n=2)
        got = [one(a)]
        data[0] = 10
        data[2] = 30
        got += [one(b), one(b), one(a), one(a), one(b)]
    except Exception as ex:  # noqa: BLE001
        got = repr(ex)
    return want, got


def aiter_failures(v):
    """The first use of an async iterable is asking it for its iterator: when THAT fails -- with whatever class of
    exception, AttributeError and TypeError included -- the same exception comes out of the tool (at the call or at the
    first item), and the iterable is not looked at in any other way afterwards (no second attempt, no fallback to
    another protocol)."""
    from .driver import Accounting, Task  # noqa: PLC0415
    L = tm.load_lib()

    async def ident(*a):
        return a[0] if a else None

    tools = {
        "list": lambda x: L.list(x), "tuple": lambda x: L.tuple(x), "set": lambda x: L.set(x), "dict": lambda x: L.dict(x),
        "sorted": lambda x: L.sorted(x), "sum": lambda x: L.sum(x), "min": lambda x: L.min(x), "max": lambda x: L.max(x),
        "all": lambda x: L.all(x), "any": lambda x: L.any(x), "reduce": lambda x: L.reduce(ident, x),
        "nlargest": lambda x: L.nlargest(x, 1), "nsmallest": lambda x: L.nsmallest(x, 1),
        "enumerate": lambda x: L.enumerate(x), "filter": lambda x: L.filter(None, x), "filterfalse": lambda x: L.filterfalse(None, x),
        "map": lambda x: L.map(ident, x), "starmap": lambda x: L.starmap(ident, x), "islice": lambda x: L.islice(x, 2),
        "takewhile": lambda x: L.takewhile(ident, x), "dropwhile": lambda x: L.dropwhile(ident, x), "accumulate": lambda x: L.accumulate(x),
        "batched": lambda x: L.batched(x, 2), "pairwise": lambda x: L.pairwise(x), "cycle": lambda x: L.cycle(x),
        "chain": lambda x: L.chain([], x), "zip": lambda x: L.zip([1], x), "zip_longest": lambda x: L.zip_longest([1], x),
        "merge": lambda x: L.merge([], x), "compress": lambda x: L.compress(x, [1]), "groupby": lambda x: L.groupby(x),
        "any_iter": lambda x: L.any_iter(x),
    }
    for exc_cls in (AttributeError, TypeError, tm.InjectedError):
        for name, make in tools.items():
            err = exc_cls("the iterable cannot be iterated right now")
            looks = []

            class Failing:
                def __aiter__(self):
                    looks.append("__aiter__")
                    raise err

                def __getattr__(self, attr):          # whatever else is asked of it is recorded (and absent)
                    looks.append(attr)
                    raise AttributeError(attr)

            async def go(make=make):
                r = make(Failing())
                if hasattr(r, "__aiter__"):
                    return await L.list(r)
                return await r

            res = Task(go(), Accounting()).run()
            after = looks[looks.index("__aiter__") + 1:] if "__aiter__" in looks else looks
            after = [a for a in after if a != "aclose"]      # being asked to close is no use of the iterable
            got = "same" if res[0] == "raised" and res[1] is err else f"{res[0]}:{type(res[1]).__name__}"
            if name == "chain" and got == "same":
                # a lazy tool gets to the failing iterable only after what comes before it: chain([1, 2], failing)
                seen = []

                async def lazily():
                    async for x in L.chain([1, 2], Failing()):
                        seen.append(x)

                Task(lazily(), Accounting()).run()
                if seen != [1, 2]:
                    v.violation("C06/chain/items-before-failure-missing+failing-aiter",
                                {"engine": "scenario", "exception": exc_cls.__name__, "expected": [1, 2], "observed": seen})
            if got != "same":
                v.violation(f"C06/{name}/failure-of-aiter-not-propagated-unchanged",
                            {"engine": "scenario", "exception": exc_cls.__name__, "expected": "the exception raised by __aiter__", "observed": got + " " + repr(res[1])[:80]})
            elif "__aiter__" in after or "__iter__" in after or "__getitem__" in after:
                v.violation(f"C06/{name}/iterable-used-again-after-aiter-failed",
                            {"engine": "scenario", "exception": exc_cls.__name__, "observed": looks})


def nontrivial(case):
    """A case is non-trivial when the tool pulled at least one item."""
    return any(e["ev"] == "pull" and e["res"] == "item" for e in case["log"]) or \
        any(e["ev"] == "call" for e in case["log"])


def check(prop, tier, seed):
    v = Verdict(prop, tier, seed)
    tools = SCOPE[prop]
    need_faults = prop in ("C04", "C06", "C19")
    need_prefix = prop in ("C04", "C05", "C19")
    cases, stats = generate(tier, tools, faults=need_faults, prefixes=need_prefix)
    if prop in ("C01", "C02"):
        cases = [c for c in cases if case_kind(c) == "full"]
    if prop == "C06":
        cases = [c for c in cases if case_kind(c) == "fault"]
    if prop in ("C04", "C06"):
        # heapq compares items as they arrive, the Sorted machine reports the TypeError of an
        # unorderable item when the input has ended: the two only agree when nothing else fails
        cases = [c for c in cases if not (c["cfg"]["tool"] in ("nlargest", "nsmallest") and case_kind(c) == "fault"
                                          and any(9 in d for d in c["cfg"]["data"]))]
    res = run_cases(cases, [prop])
    if res["mach"]:
        raise MachineryError("spec/stdlib disagreement: " + json.dumps(res["mach"][:3], default=str)[:3000])
    for p, sig, detail in res["viol"]:
        if p == prop:
            v.violation(sig, detail)
    sub = {}
    # tools with shared or concurrent state have specifications of their own; their engines
    # contribute what concerns this property (groupby: GroupBy.tla, tee children: Tee.tla)
    if prop in ("C04", "C05", "C06"):
        from . import eng_groupby  # noqa: PLC0415
        gviol, gtot, _ = eng_groupby.collect(tier, [prop])
        for p, sig, detail in gviol:
            if p == prop:
                v.violation(sig, detail)
        sub["groupby"] = gtot
    if prop in ("C01", "C04", "C06"):
        from . import eng_tee  # noqa: PLC0415
        from .report import SubVerdict  # noqa: PLC0415

        def tee_map(sig, d):
            tail = sig.split("/", 1)[1]
            if prop == "C01" and ("recv-rejected" in sig or "end-rejected" in sig or "fetch-rejected" in sig):
                return "C01/" + tail
            if prop == "C04" and ("quiesce-rejected" in sig or "srcclose-rejected" in sig or "aclose" in sig):
                return "C04/" + tail
            failed = any(isinstance(st, list) and st and st[0] == "fail" for st in d.get("path", []))
            if prop == "C06" and ("failed-rejected" in sig or ("error-" in sig and "aclose" not in sig) or (failed and "end-rejected" in sig)):
                return "C06/" + tail
            return None

        sv = SubVerdict(v, tee_map, "tee")
        eng_tee.check("C09", "mini", seed, into=sv)
        sub["tee"] = {k: (sv.coverage_out or {}).get(k) for k in ("states", "transitions", "edge_cover_paths", "traces_validated_by_TLC_against_TeeObs")}
    if prop == "C01":
        # the number of children is a parameter like any other: itertools.tee(it, 0) is the empty tuple, n=1 one child
        import itertools as _it  # noqa: PLC0415
        from .driver import Accounting, Task  # noqa: PLC0415
        L_ = tm.load_lib()
        for n_ in (0, 1, 2):
            want = len(_it.tee(iter([1, 2]), n_))
            try:
                handle = L_.tee([1, 2], n=n_)
                got = len(handle)
                items = [Task(L_.list(ch), Accounting()).run()[1] for ch in handle]
                ok = got == want and all(x == [1, 2] for x in items)
                obs = {"children": got, "items": items}
            except Exception as ex:  # noqa: BLE001
                ok, obs = False, repr(ex)
            if not ok:
                v.violation("C01/tee/number-of-children-differs-from-itertools", {"engine": "scenario", "cfg": {"n": n_}, "expected": {"children": want}, "observed": obs})
    if prop == "C06":
        aiter_failures(v)
    if prop in ("C01", "C02"):
        for sig_, d_ in equal_items_distinct_keys(tm.load_lib(), prop):
            v.violation(sig_, d_)
    if prop == "C01":
        want_, got_ = tee_over_list(tm.load_lib())
        if want_ != got_:
            v.violation("C01/tee/children-over-an-edited-list-differ-from-itertools", {"engine": "scenario", "expected": want_, "observed": got_})
    if prop in ("C01", "C02", "C04", "C05", "C06"):
        sub["beyond_bounds"] = beyond_bounds(prop, tier, seed, v)
    if prop == "C19":
        L = tm.load_lib()

        async def corofn(x):
            return x

        # sync() of two related callables, one after the other: each wrapper calls the callable it was made from
        import functools as _ft  # noqa: PLC0415
        from .driver import Accounting as _Acc, Task as _Task  # noqa: PLC0415

        def plain(x):
            return ("plain", x)

        class Holder:
            def method(self, x):
                return ("method", x)

        h_ = Holder()
        got = []

        def use(f_, *args_):
            r_ = _Task(L.sync(f_)(*args_), _Acc()).run()
            got.append(r_[1] if r_[0] == "done" else repr(r_[1]))

        use(plain, 1)

        @_ft.wraps(plain)              # made after `plain` has been through sync(): wraps() copies plain's attributes
        def decorated(x):
            return ("decorated", x)

        use(decorated, 1)
        use(Holder.method, h_, 1)      # the function taken from the class first ...
        use(h_.method, 1)              # ... then a bound method of it (which shows the function's attributes)
        use(plain, 2)
        want_ = [("plain", 1), ("decorated", 1), ("method", 1), ("method", 1), ("plain", 2)]
        if got != want_:
            v.violation("C19/sync/wrapper-calls-another-callable", {"engine": "scenario", "expected": want_, "observed": got})
        # any_iter awaits an awaitable item once: what that yields is the item, awaitable or not
        from .instruments import Aw as _Aw, Recorder as _Rec  # noqa: PLC0415
        rec_ = _Rec()
        inner = _Aw(rec_, "value-of-the-inner-awaitable")
        outer = _Aw(rec_, inner)
        r_ = _Task(L.list(L.any_iter([outer])), rec_.acct).run()
        nawait = sum(1 for e in rec_.log if e["ev"] == "await")
        if r_[0] != "done" or len(r_[1]) != 1 or r_[1][0] is not inner or nawait != 1:
            v.violation("C19/any_iter/item-awaited-more-than-once", {"engine": "scenario", "expected": "one await, the inner awaitable as item",
                                                                     "observed": {"awaits": nawait, "result": repr(r_)[:120]}})
        if L.sync(corofn) is not corofn:
            v.violation("C19/sync/coroutine-function-not-returned-unchanged", {"engine": "toolmachine", "expected": "sync(f) is f", "observed": repr(L.sync(corofn))})
    rnd = random.Random(seed)
    for c in rnd.sample(cases, min(4, len(cases))):
        v.sample({"cfg": c["cfg"], "nnext": c["nnext"], "fault": c["fault"], "log": c["log"][:12]})
    distinct = len({json.dumps([c["cfg"], c["nnext"], c["fault"], c["log"][-1]], sort_keys=True) for c in cases if nontrivial(c)})
    v.assumptions += [
        "sources/callables behave like the instruments (class-based sources survive a thrown exception, async generators do not)",
        "CPython %s is the oracle for 'the standard library'" % ".".join(map(str, __import__("sys").version_info[:3])),
        f"exhaustive only within MaxLen={TIERS[tier]['MaxLen']}, MaxSrc={TIERS[tier]['MaxSrc']} and the parameter sets of ConfigsOf in spec/ToolMachine.tla",
    ]
    return v.finish({
        "states": stats["states"], "transitions": stats["transitions"],
        "traces_validated_against_impl": res["n"].get("impl_replays", 0) + sub.get("beyond_bounds", {}).get("random_executions", 0),
        "twin_replays": res["n"].get("twin_replays", 0),
        "evaluations": len(cases), "distinct_nontrivial": distinct,
        "rule": "every leaf of the ToolMachine state tree (tool x parameters x data x consumer prefix x fault position) "
                "is one case; non-trivial = at least one item pulled or one user callable invoked; distinct by (cfg, consumer steps, fault, last event)",
        "exhaustive": True, "tlc_runs": stats["tlc_runs"], "tlc_wall_s": round(stats["tlc_wall"], 1),
        "tools": tools, "case_counts": res["n"], "sub_engines": sub,
        "checker_cmd": "tlc -workers 16 -config <generated> spec/ToolMachine.tla (INVARIANTs: " + ", ".join(INVARIANTS) + ")",
    })
