"""SimpleCM engine (extra coverage, no listed property): closing / nullcontext vs spec/SimpleCM.tla
vs contextlib.aclosing / contextlib.nullcontext.

TLC enumerates every case (kind x block outcome x aclose behaviour x number of uses); each is run
under a real `async with` with asyncstdlib (verdict) and with contextlib (honesty of the table:
disagreement = machinery error).  The suspension accounting of every run also feeds C17.
"""
from __future__ import annotations

import contextlib

from . import tm
from .driver import Accounting, Suspend, Task
from .report import Verdict
from .tlc import MachineryError, read_ndjson, run_tlc

CFG = """CONSTANTS
  OutFile = "@OUT:cases.ndjson@"
INIT Init
NEXT Next
CHECK_DEADLOCK FALSE
INVARIANT ClosedOncePerUse
INVARIANT NeverSuppresses
INVARIANT CancelComesOut
INVARIANT Emit
"""


class CloseError(Exception):
    pass


BLOCK = {"Exception": Exception, "BaseException": BaseException, "GeneratorExit": GeneratorExit,
         "StopAsyncIteration": StopAsyncIteration}


class Cancelled_(BaseException):
    pass


def run_case(c, closing, nullcontext, susp=1):
    acct = Accounting()
    st = {"ncls": 0, "args": [], "reached": False}
    cancel = Cancelled_("cancel")
    if c.get("ccancel"):
        susp = max(susp, 1)

    class Thing:
        async def aclose(self, *a, **kw):
            st["ncls"] += 1
            st["args"].append((a, kw))
            for j in range(susp):
                try:
                    await Suspend(acct, ("aclose", j))
                except BaseException as e:  # noqa: BLE001
                    st["reached"] = e is cancel      # what the loop throws arrives here, as it is
                    raise
            if c["cb"] == "raise":
                raise CloseError()
            return c["cb"] == "truthy"

    thing, value = Thing(), object()
    cm = closing(thing) if c["kind"] == "closing" else nullcontext(value)
    bound, results = [], []

    async def one_use():
        blk = None if c["o"] == "normal" else BLOCK[c["o"]]("block")
        try:
            async with cm as v:
                bound.append("thing" if v is thing else "value" if v is value else repr(v))
                if blk is not None:
                    raise blk
        except BaseException as e:  # noqa: BLE001
            return "cancel" if e is cancel else "same" if e is blk else f"new:{type(e).__name__}"
        return "ok"

    nsusp = 0
    for u in range(c["uses"]):
        t = Task(one_use(), acct)
        if c.get("ccancel") and u == c["uses"] - 1:
            r = t.step()
            if r[0] == "token":
                r = t.throw(cancel)
                while r[0] == "token":      # held back instead of delivered: the operation goes on suspending
                    st["held_back"] = True
                    r = t.step()
            if not st["reached"]:
                results.append("cancel-not-delivered-to-aclose")
                continue
        else:
            r = t.run()
        nsusp += t.nsusp
        results.append(r[1] if r[0] == "done" else f"escaped:{r[1]!r}")
    return {"bound": bound, "ncls": st["ncls"], "results": results, "acct_ok": acct.ok(), "nsusp": nsusp,
            "args_ok": all(a == ((), {}) for a in st["args"])}


def check(prop, tier, seed, into=None):
    v = into or Verdict(prop, tier, seed)
    res = run_tlc("SimpleCM", CFG, outfiles=["cases.ndjson"], timeout=600)
    cases = read_ndjson(res["files"]["cases.ndjson"])
    L = tm.load_lib()
    mach, n = [], {"impl": 0, "twin": 0}
    for c in cases:
        exp = {k: c[k] for k in ("bound", "ncls", "results")}
        cfg = {k: c[k] for k in ("kind", "o", "cb", "uses", "ccancel")}
        got = run_case(c, contextlib.aclosing, contextlib.nullcontext)
        n["twin"] += 1
        if {k: got[k] for k in exp} != exp:
            mach.append({"case": cfg, "expected": exp, "twin": got})
        for susp in (0, 1, 2):
            got = run_case(c, L.closing, L.nullcontext, susp)
            n["impl"] += 1
            for k in ("bound", "ncls", "results"):
                if got[k] != exp[k]:
                    v.violation(f"{prop}/{c['kind']}/{k}-differs+block-{c['o']}",
                                {"engine": "simplecm", "spec": "SimpleCM", "cfg": cfg, "expected": exp, "observed": got})
                    break
            if not got["args_ok"]:
                v.violation(f"{prop}/{c['kind']}/aclose-called-with-arguments", {"engine": "simplecm", "cfg": cfg, "observed": got})
            want = susp * c["ncls"]
            if c.get("ccancel"):
                want = got["nsusp"]       # a cancelled close suspends once less or more depending on where it was hit
            if not got["acct_ok"] or got["nsusp"] != want:
                v.violation(f"{prop}/{c['kind']}/suspends-without-user-awaitable",
                            {"engine": "simplecm", "cfg": cfg, "expected_suspensions": want, "observed": got})
    if mach:
        raise MachineryError("SimpleCM spec disagrees with contextlib: " + str(mach[:4]))
    for c in cases[:: max(1, len(cases) // 4)]:
        v.sample({k: c[k] for k in ("kind", "o", "cb", "uses", "results")})
    v.assumptions += ["twin: contextlib.aclosing / contextlib.nullcontext of CPython 3.12"]
    return v.finish({
        "states": res["distinct"], "transitions": res["generated"], "traces_validated_against_impl": n["impl"], "twin_replays": n["twin"],
        "cases": len(cases), "exhaustive": True, "evaluations": n["impl"], "distinct_nontrivial": len(cases),
        "rule": "every kind x block outcome x aclose behaviour x 1..2 uses, with 0..2 suspensions inside aclose",
        "checker_cmd": "tlc spec/SimpleCM.tla (INVARIANTs ClosedOncePerUse, NeverSuppresses)",
    })
