"""SimpleCM engine (extra coverage, no listed property): closing / nullcontext vs spec/SimpleCM.tla
vs contextlib.aclosing / contextlib.nullcontext.

TLC enumerates every case (kind x block outcome x aclose behaviour x number of uses); each is run
under a real `async with` with asyncstdlib (verdict) and with contextlib (honesty of the table:
disagreement = machinery error).  The suspension accounting of every run also feeds C17.
"""
from __future__ import annotations

import contextlib

from . import tm
from .driver import Accounting, Suspend, Task
from .report import Verdict
from .tlc import MachineryError, read_ndjson, run_tlc

CFG = """CONSTANTS
  OutFile = "@OUT:cases.ndjson@"
INIT Init
NEXT Next
CHECK_DEADLOCK FALSE
INVARIANT ClosedOncePerUse
INVARIANT NeverSuppresses
INVARIANT Emit
"""


class CloseError(Exception):
    pass


BLOCK = {"Exception": Exception, "BaseException": BaseException, "GeneratorExit": GeneratorExit,
         "StopAsyncIteration": StopAsyncIteration}


def run_case(c, closing, nullcontext, susp=1):
    acct = Accounting()
    st = {"ncls": 0, "args": []}

    class Thing:
        async def aclose(self, *a, **kw):
            st["ncls"] += 1
            st["args"].append((a, kw))
            for j in range(susp):
                await Suspend(acct, ("aclose", j))
            if c["cb"] == "raise":
                raise CloseError()
            return c["cb"] == "truthy"

    thing, value = Thing(), object()
    cm = closing(thing) if c["kind"] == "closing" else nullcontext(value)
    bound, results = [], []

    async def one_use():
        blk = None if c["o"] == "normal" else BLOCK[c["o"]]("block")
        try:
            async with cm as v:
                bound.append("thing" if v is thing else "value" if v is value else repr(v))
                if blk is not None:
                    raise blk
        except BaseException as e:  # noqa: BLE001
            return "same" if e is blk else f"new:{type(e).__name__}"
        return "ok"

    nsusp = 0
    for _ in range(c["uses"]):
        t = Task(one_use(), acct)
        r = t.run()
        nsusp += t.nsusp
        results.append(r[1] if r[0] == "done" else f"escaped:{r[1]!r}")
    return {"bound": bound, "ncls": st["ncls"], "results": results, "acct_ok": acct.ok(), "nsusp": nsusp,
            "args_ok": all(a == ((), {}) for a in st["args"])}


def check(prop, tier, seed, into=None):
    v = into or Verdict(prop, tier, seed)
    res = run_tlc("SimpleCM", CFG, outfiles=["cases.ndjson"], timeout=600)
    cases = read_ndjson(res["files"]["cases.ndjson"])
    L = tm.load_lib()
    mach, n = [], {"impl": 0, "twin": 0}
    for c in cases:
        exp = {k: c[k] for k in ("bound", "ncls", "results")}
        cfg = {k: c[k] for k in ("kind", "o", "cb", "uses")}
        got = run_case(c, contextlib.aclosing, contextlib.nullcontext)
        n["twin"] += 1
        if {k: got[k] for k in exp} != exp:
            mach.append({"case": cfg, "expected": exp, "twin": got})
        for susp in (0, 1, 2):
            got = run_case(c, L.closing, L.nullcontext, susp)
            n["impl"] += 1
            for k in ("bound", "ncls", "results"):
                if got[k] != exp[k]:
                    v.violation(f"{prop}/{c['kind']}/{k}-differs+block-{c['o']}",
                                {"engine": "simplecm", "spec": "SimpleCM", "cfg": cfg, "expected": exp, "observed": got})
                    break
            if not got["args_ok"]:
                v.violation(f"{prop}/{c['kind']}/aclose-called-with-arguments", {"engine": "simplecm", "cfg": cfg, "observed": got})
            want = susp * c["ncls"]
            if not got["acct_ok"] or got["nsusp"] != want:
                v.violation(f"{prop}/{c['kind']}/suspends-without-user-awaitable",
                            {"engine": "simplecm", "cfg": cfg, "expected_suspensions": want, "observed": got})
    if mach:
        raise MachineryError("SimpleCM spec disagrees with contextlib: " + str(mach[:4]))
    for c in cases[:: max(1, len(cases) // 4)]:
        v.sample({k: c[k] for k in ("kind", "o", "cb", "uses", "results")})
    v.assumptions += ["twin: contextlib.aclosing / contextlib.nullcontext of CPython 3.12"]
    return v.finish({
        "states": res["distinct"], "transitions": res["generated"], "traces_validated_against_impl": n["impl"], "twin_replays": n["twin"],
        "cases": len(cases), "exhaustive": True, "evaluations": n["impl"], "distinct_nontrivial": len(cases),
        "rule": "every kind x block outcome x aclose behaviour x 1..2 uses, with 0..2 suspensions inside aclose",
        "checker_cmd": "tlc spec/SimpleCM.tla (INVARIANTs ClosedOncePerUse, NeverSuppresses)",
    })
