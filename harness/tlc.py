"""Running TLC (and caching what depends only on spec + cfg, never on /repo)."""
from __future__ import annotations

import fcntl
import hashlib
import json
import os
import re
import shutil
import subprocess
import time

ROOT = os.path.dirname(os.path.dirname(os.path.abspath(__file__)))
SPEC = os.path.join(ROOT, "spec")
BUILD = os.path.join(ROOT, "build")
CACHE = os.path.join(BUILD, "tlc-cache")


class MachineryError(Exception):
    """TLC failed, a spec invariant is violated, a vacuity guard tripped ... (exit 2)."""


def _sha(*parts):
    h = hashlib.sha256()
    for p in parts:
        h.update(p.encode() if isinstance(p, str) else p)
        h.update(b"\0")
    return h.hexdigest()[:20]


def spec_closure(module):
    """Text of the module and of every local module it EXTENDS / INSTANCEs."""
    seen, todo, out = set(), [module], []
    while todo:
        m = todo.pop()
        if m in seen:
            continue
        path = os.path.join(SPEC, m + ".tla")
        if not os.path.exists(path):
            continue
        seen.add(m)
        text = open(path).read()
        out.append(text)
        for mm in re.findall(r"(?:EXTENDS|INSTANCE)\s+([^\n]*)", text):
            for name in re.split(r"[,\s]+", mm):
                name = name.strip()
                if name and name not in seen and re.fullmatch(r"\w+", name):
                    todo.append(name)
    return "\n".join(sorted(out))


STAT_RE = re.compile(r"(\d+) states generated, (\d+) distinct states found, (\d+) states left on queue")
DEPTH_RE = re.compile(r"depth of the complete state graph search is (\d+)")


def parse_stats(out):
    m = None
    for m in STAT_RE.finditer(out):
        pass
    d = DEPTH_RE.search(out)
    if not m:
        return {"generated": 0, "distinct": 0, "depth": 0}
    return {"generated": int(m.group(1)), "distinct": int(m.group(2)), "depth": int(d.group(1)) if d else 0}


def parse_coverage(out):
    """Per-action counts from -coverage output: {action: (distinct, total)}."""
    cov = {}
    for m in re.finditer(r"<(\w+) line \d+, col \d+ to line \d+, col \d+ of module (\w+)>: (\d+):(\d+)", out):
        name = m.group(1)
        a, b = int(m.group(3)), int(m.group(4))
        old = cov.get(name, (0, 0))
        cov[name] = (old[0] + a, old[1] + b)
    return cov


def run_tlc(module, cfg_text, *, outfiles=(), workers=16, timeout=1800, cache=True,
            simulate=None, env=None, coverage=False, depth=None, seed=None, jvm_props=(),
            expect_violation=False, extra_args=()):
    """Run TLC on spec/<module>.tla with the given cfg text.

    ``cfg_text`` may contain ``@OUT:<name>@`` placeholders, one per entry of ``outfiles``;
    they are replaced by absolute paths inside the (cache) run directory, which are
    returned in result["files"].  With cache=True and an identical spec closure + cfg the
    previous result directory is reused.
    """
    key = _sha(spec_closure(module), cfg_text, repr(simulate), repr(depth), repr(seed),
               repr(sorted((env or {}).items())), repr(coverage), repr(extra_args), repr(jvm_props))
    os.makedirs(CACHE, exist_ok=True)
    rundir = os.path.join(CACHE, f"{module}-{key}") if cache else os.path.join(BUILD, f"run-{os.getpid()}-{module}-{key}")
    lock_path = rundir + ".lock"
    with open(lock_path, "w") as lock:
        fcntl.flock(lock, fcntl.LOCK_EX)
        done = os.path.join(rundir, "result.json")
        if cache and os.path.exists(done):
            res = json.load(open(done))
            res["cached"] = True
            return res
        if os.path.exists(rundir):
            shutil.rmtree(rundir)
        os.makedirs(rundir)
        files = {}
        text = cfg_text
        for name in outfiles:
            p = os.path.join(rundir, name)
            files[name] = p
            text = text.replace(f"@OUT:{name}@", p)
        cfg_path = os.path.join(rundir, module + ".cfg")
        open(cfg_path, "w").write(text)
        # TLC wants the spec next to its dependencies: run in spec/, metadir in rundir
        cmd = ["tlc", "-workers", str(workers), "-metadir", os.path.join(rundir, "meta"),
               "-noGenerateSpecTE", "-config", cfg_path]
        if coverage:
            cmd += ["-coverage", "1"]
        if simulate:
            cmd += ["-simulate", simulate]
        if depth:
            cmd += ["-depth", str(depth)]
        if seed is not None:
            cmd += ["-seed", str(seed)]
        cmd += list(extra_args)
        cmd += [os.path.join(SPEC, module + ".tla")]
        e = dict(os.environ)
        e.update(env or {})
        if jvm_props:
            e["JAVA_TOOL_OPTIONS"] = " ".join(f"-D{p}" for p in jvm_props)
        t0 = time.time()
        try:
            p = subprocess.run(cmd, cwd=SPEC, env=e, capture_output=True, text=True, timeout=timeout)
        except subprocess.TimeoutExpired as ex:
            subprocess.run(["pkill", "-f", f"metadir {os.path.join(rundir, 'meta')}"], check=False)
            raise MachineryError(f"TLC timed out after {timeout}s on {module}") from ex
        wall = time.time() - t0
        out = p.stdout + p.stderr
        open(os.path.join(rundir, "tlc.out"), "w").write(out)
        shutil.rmtree(os.path.join(rundir, "meta"), ignore_errors=True)
        violated = "is violated" in out or "Error:" in out
        ok = ("Model checking completed. No error has been found." in out) or (simulate and p.returncode == 0)
        res = {"module": module, "ok": bool(ok and not violated), "violated": violated, "rc": p.returncode,
               "wall": round(wall, 2), "files": files, "rundir": rundir, "cached": False,
               "cmd": " ".join(cmd), **parse_stats(out)}
        if coverage:
            res["coverage"] = parse_coverage(out)
        if not res["ok"] and not expect_violation:
            tail = "\n".join(out.splitlines()[-40:])
            shutil.rmtree(rundir, ignore_errors=True)
            raise MachineryError(f"TLC failed on {module} (rc={p.returncode}):\n{tail}")
        res["tail"] = "\n".join(out.splitlines()[-25:]) if not res["ok"] else ""
        json.dump(res, open(done, "w"))
        return res


def read_ndjson(path):
    """Lines written by CSVWrite("%1$s", <<ToJson(x)>>, f): JSON-quoted JSON."""
    out = []
    with open(path) as f:
        for line in f:
            line = line.strip()
            if not line:
                continue
            v = json.loads(line)
            if isinstance(v, str):
                v = json.loads(v)
            out.append(v)
    return out


def vacuity_guard(module, cfg_text, actions, timeout=3000):
    """Re-run a configuration with -coverage 1 and insist that every named action was taken at
    least once (an action never taken means the invariants were never exercised on it)."""
    text = "\n".join(l for l in cfg_text.splitlines() if not l.startswith("ACTION_CONSTRAINT")) + "\n"
    text = text.replace('"@OUT:edges.ndjson@"', '""')
    res = run_tlc(module, text, coverage=True, timeout=timeout, workers=8)
    cov = res.get("coverage", {})
    missing = [a for a in actions if cov.get(a, (0, 0))[1] == 0]
    if missing:
        raise MachineryError(f"vacuity guard: actions never taken in {module}: {missing}")
    return {a: cov[a][1] for a in actions}
