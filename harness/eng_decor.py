"""Decorator engine (C15): ContextDecorator / contextmanager-made managers as decorators.

Every transition of spec/Decorator.tla (all interleavings of 2..3 concurrent calls, and
sequential repeats; bodies returning, raising, cancelled at any suspension) is replayed into a
real decorated coroutine function with hand-driven tasks; per call: enter/exit counts, the
generator instance serving it, the exception the exit saw and the call's result are compared.
"""
from __future__ import annotations

import multiprocessing as mp
import os

from . import tm
from .driver import Accounting, Suspend, Task
from .graph import build_paths
from .instruments import Cancelled
from .report import Verdict
from .tlc import MachineryError, read_ndjson, run_tlc


class BodyError(Exception):
    def __bool__(self):      # an exception is one whatever its truth value (an error that is an empty collection of problems)
        return False


class DecoSys:
    def __init__(self, L, ncall, genbased, suppress, predirect=False):
        self.acct = Accounting()
        self.current = 0
        self.ngen = 0
        self.log = []
        self.plan = {}
        self.body_exc = {}
        self.cancel_exc = {}
        self.task = {}
        self.pc = {c: "new" for c in range(1, ncall + 1)}
        self.how = {c: "-" for c in range(1, ncall + 1)}
        self.res = {c: "-" for c in range(1, ncall + 1)}
        self.gen = {c: 0 for c in range(1, ncall + 1)}
        self.en = {c: 0 for c in range(1, ncall + 1)}
        self.ex = {c: 0 for c in range(1, ncall + 1)}
        self.exit_saw = {}
        self.errors = []
        self.ngen_offset = 0
        s = self

        def label(c, exc):
            if exc is None:
                return "none"
            if exc is s.body_exc.get(c):
                return "raise"
            if exc is s.cancel_exc.get(c):
                return "cancel"
            return "other:" + type(exc).__name__

        if genbased and genbased != "recreate":
            async def reporter(*a):        # an argument of the manager that happens to be a coroutine function
                return None

            @L.contextmanager
            async def manager(report=None):
                if report is not reporter:
                    s.errors.append(("argument-of-the-manager-lost", 0, repr(report)))
                s.ngen += 1
                gid = s.ngen
                c = s.current
                s.gen[c] = gid
                await Suspend(s.acct, ("enter", c))
                s.en[s.current] += 1
                if s.current != c:
                    s.errors.append(("enter-resumed-by-other-call", c, s.current))
                try:
                    yield gid
                except BaseException as exc:  # noqa: BLE001
                    cc = s.current
                    s.exit_saw[cc] = (gid, label(cc, exc))
                    try:
                        await Suspend(s.acct, ("exit", cc))
                    finally:
                        s.ex[cc] += 1
                    if not suppress:
                        raise
                else:
                    cc = s.current
                    s.exit_saw[cc] = (gid, "none")
                    try:
                        await Suspend(s.acct, ("exit", cc))
                    finally:
                        s.ex[cc] += 1

            deco = manager(report=reporter) if suppress else manager(reporter)      # all parameters optional; given by keyword or by position
        elif genbased == "recreate":
            # a class-based manager that asks for a fresh copy per decorated call -- through a _recreate_cm it inherits
            # from a base class of its own (the generator-made managers do the same with a fresh generator)
            class SingleUse(L.ContextDecorator):
                def __init__(self):
                    s.ngen += 1
                    self.gid = s.ngen
                    self.used = False

                def _recreate_cm(self):
                    return type(self)()

            class Manager(SingleUse):
                async def __aenter__(self):
                    c = s.current
                    if self.used:
                        s.errors.append(("enter-resumed-by-other-call", c, "single-use manager entered twice"))
                    self.used = True
                    s.gen[c] = self.gid
                    await Suspend(s.acct, ("enter", c))
                    s.en[s.current] += 1
                    return self.gid

                async def __aexit__(self, et, ev, tb):
                    cc = s.current
                    s.exit_saw[cc] = (self.gid, label(cc, ev))
                    try:
                        await Suspend(s.acct, ("exit", cc))
                    finally:
                        s.ex[cc] += 1
                    return suppress

            deco = Manager()
            self.ngen_offset = s.ngen        # the decorating instance itself is never entered
        else:
            class Manager(L.ContextDecorator):
                def __await__(self):       # a manager that can also be awaited (pool-acquire style): a decorated call enters it
                    s.errors.append(("manager-awaited-instead-of-entered", s.current, "__await__ of the decorating manager was used"))
                    return iter(())

                async def __aenter__(self):
                    c = s.current
                    await Suspend(s.acct, ("enter", c))
                    s.en[s.current] += 1
                    return 0

                async def __aexit__(self, et, ev, tb):
                    cc = s.current
                    s.exit_saw[cc] = (0, label(cc, ev))
                    try:
                        await Suspend(s.acct, ("exit", cc))
                    finally:
                        s.ex[cc] += 1
                    return suppress

            deco = Manager()

        if predirect:
            # used once directly as `async with manager:` first -- decorated calls must not mind
            async def direct():
                async with deco:
                    pass
            self.current = 0
            self.en[0] = self.ex[0] = 0
            Task(direct(), self.acct).run()
            self.ngen_offset = self.ngen
            for d_ in (self.en, self.ex, self.gen, self.exit_saw):
                d_.pop(0, None)

        async def body(c, kw):
            # keyword names a wrapper might use for itself must reach the function untouched
            if kw != {"func": "f", "self": "s", "args": "a", "kwds": "k"}:
                s.errors.append(("keyword-arguments-lost", c, kw))
            await Suspend(s.acct, ("body", c))
            if s.plan.get(c) == "raise":
                s.body_exc[c] = BodyError()
                raise s.body_exc[c]
            return ("value", c)

        if genbased == suppress:
            @deco
            async def func(c, **kw):
                return await body(c, kw)
        else:
            # a plain function returning the awaitable: what it does when *called* is part of the call as
            # well, and has to happen inside the context
            @deco
            def func(c, **kw):
                if s.en.get(c, 0) != 1 or s.ex.get(c, 0) != 0:
                    s.errors.append(("function-called-outside-its-context", c, {"entered": s.en.get(c, 0), "exited": s.ex.get(c, 0)}))
                return body(c, kw)

        self.func = func

    def _after(self, c, r):
        if r[0] == "token":
            tag = getattr(r[1], "tag", ("?", 0))
            self.pc[c] = {"enter": "entering", "body": "inbody", "exit": "exiting"}.get(tag[0], "foreign")
            return
        self.pc[c] = "done"
        if r[0] == "done":
            v = r[1]
            self.res[c] = "value" if v == ("value", c) else "none" if v is None else "other"
        else:
            exc = r[1]
            self.res[c] = "raise" if exc is self.body_exc.get(c) else "cancel" if exc is self.cancel_exc.get(c) else "other:" + type(exc).__name__

    def apply(self, a, c, arg):
        self.current = c
        if a == "start":
            call = self.func(c, func="f", self="s", args="a", kwds="k")
            if c % 2 == 0:
                # awaited from inside an `except` block: the exception being handled out there is none of the call's
                # business (its context is left normally when its body ends normally)
                async def while_handling(aw=call):
                    try:
                        raise LookupError("being handled by the caller")
                    except LookupError:
                        return await aw
                call = while_handling()
            t = Task(call, self.acct)
            self.task[c] = t
            self._after(c, t.step())
        elif a == "entered":
            self._after(c, self.task[c].step())
        elif a == "bodyend":
            self.plan[c] = arg
            self.how[c] = arg
            self._after(c, self.task[c].step())
        elif a == "exited":
            self._after(c, self.task[c].step())
        elif a == "cancel":
            self.cancel_exc[c] = Cancelled("cancel")
            if self.pc[c] == "inbody":
                self.how[c] = "cancel"
            self._after(c, self.task[c].throw(self.cancel_exc[c]))

    def can(self, a, c):
        return {"start": self.pc[c] == "new", "entered": self.pc[c] == "entering", "bodyend": self.pc[c] == "inbody",
                "exited": self.pc[c] == "exiting", "cancel": self.pc[c] in ("entering", "inbody", "exiting")}[a]

    def project(self):
        ks = sorted(self.pc)
        return {"pc": [self.pc[c] for c in ks], "how": [self.how[c] for c in ks], "res": [self.res[c] for c in ks],
                "gen": [self.gen[c] - self.ngen_offset if self.gen[c] else 0 for c in ks], "en": [self.en[c] for c in ks], "ex": [self.ex[c] for c in ks]}


def cfg_text(ncall, genbased, suppress, sequential, edges=True):
    b = lambda x: "TRUE" if x else "FALSE"  # noqa: E731
    return f"""CONSTANTS
  NCall = {ncall}
  GenBased = {b(genbased)}
  Suppress = {b(suppress)}
  Sequential = {b(sequential)}
  AllowCancel = TRUE
  EdgeFile = "{'@OUT:edges.ndjson@' if edges else ''}"
INIT Init
NEXT Next
VIEW View
CHECK_DEADLOCK FALSE
INVARIANT OwnGenerator
INVARIANT Paired
INVARIANT Result
""" + ("ACTION_CONSTRAINT EmitEdge\n" if edges else "")


TIERS = {
    "quick": [(2, True, False, False), (2, True, True, False), (2, False, False, False), (3, True, False, True), (2, False, True, False),
              (2, "recreate", False, False),
              (2, True, False, True, True)],     # ... the manager was first used directly in an `async with`
    "thorough": [(3, "recreate", False, False), (3, True, False, False), (3, True, True, False), (3, False, False, False), (3, False, True, False), (4, True, False, True),
                 (4, False, True, True)],
}


def replay_path(args):
    (ncall, genbased, suppress, _seq), path = args[0][:4], args[1]
    L = tm.load_lib()
    try:
        s = DecoSys(L, ncall, genbased, suppress, predirect=len(args[0]) > 4 and args[0][4])
    except Exception as ex:  # noqa: BLE001 - making the manager and decorating with it is part of what is observed
        return [("C15/decorator/manager-cannot-be-made-or-used-as-decorator",
                 {"engine": "decorator", "spec": "Decorator", "path": [x["a"] for x in path], "observed": repr(ex)})]
    for j, e in enumerate(path):
        a, c, arg = e["a"]
        if not s.can(a, c):
            return [("C15/decorator/step-not-enabled", {"engine": "decorator", "spec": "Decorator", "path": [x["a"] for x in path], "step": j,
                                                       "expected": e["a"], "observed": s.project()})]
        try:
            s.apply(a, c, arg)
        except Exception as ex:  # noqa: BLE001
            return [("C15/decorator/calling-the-decorated-function-fails",
                     {"engine": "decorator", "spec": "Decorator", "path": [x["a"] for x in path], "step": j, "observed": repr(ex)})]
        got = s.project()
        exp = {"pc": list(e["t"]["pc"]), "how": list(e["t"]["how"]), "res": list(e["t"]["res"]), "gen": list(e["t"]["gen"]),
               "en": list(e["t"]["en"]), "ex": list(e["t"]["ex"])}
        if got != exp:
            bad = [k for k in exp if got[k] != exp[k]]
            cls = "shared-generator" if "gen" in bad else "result-" + "-".join(sorted({str(x) for x, y in zip(got["res"], exp["res"]) if x != y})).split(":")[0] if "res" in bad else \
                  "enter-exit-pairing" if ("en" in bad or "ex" in bad) else "state-" + "+".join(bad)
            return [(f"C15/decorator/{cls}", {"engine": "decorator", "spec": "Decorator", "cfg": {"genbased": genbased, "suppress": suppress},
                                             "path": [x["a"] for x in path], "step": j,
                                             "expected": {k: exp[k] for k in bad}, "observed": {k: got[k] for k in bad}})]
        if a in ("bodyend",) or (a == "cancel" and arg == "inbody"):
            saw = s.exit_saw.get(c)
            want = arg if a == "bodyend" else "cancel"
            want = "none" if want == "ret" else want
            if saw is None or saw[1] != want:
                return [("C15/decorator/exit-got-wrong-exception", {"engine": "decorator", "path": [x["a"] for x in path], "step": j,
                                                                     "expected": want, "observed": saw})]
    # finish what is still running so that nothing is torn down half-way by the garbage collector
    for c, t in list(s.task.items()):
        n = 0
        while not t.done and n < 10:
            s.current = c
            s._after(c, t.step())
            n += 1
    out = []
    if s.errors:
        kind = s.errors[0][0] if s.errors[0][0] in ("function-called-outside-its-context", "keyword-arguments-lost", "argument-of-the-manager-lost") else "calls-interfere"
        out.append((f"C15/decorator/{kind}", {"engine": "decorator", "path": [x["a"] for x in path], "observed": s.errors}))
    if not s.acct.ok():
        out.append(("C15/decorator/foreign-suspension", {"engine": "decorator", "path": [x["a"] for x in path]}))
    return out


def random_run(args):
    """A random schedule of more overlapping calls than the exhaustive configurations have, recorded step by step."""
    import random  # noqa: PLC0415

    seed, ncall, genbased, suppress = args
    rnd = random.Random(seed)
    L = tm.load_lib()
    try:
        s = DecoSys(L, ncall, genbased, suppress)
    except Exception as ex:  # noqa: BLE001
        return {"cfg": {"ncall": ncall}, "ev": [], "error": repr(ex)}
    ev = []
    for _ in range(6 * ncall):
        opts = [(a, c) for c in range(1, ncall + 1) for a in ("start", "entered", "bodyend", "exited", "cancel") if s.can(a, c)]
        opts = [(a, c) for a, c in opts if a != "cancel" or rnd.random() < 0.15]
        if not opts:
            break
        a, c = rnd.choice(opts)
        arg = rnd.choice(["ret", "ret", "raise"]) if a == "bodyend" else "-"
        try:
            s.apply(a, c, arg)
        except Exception as ex:  # noqa: BLE001
            return {"cfg": {"ncall": ncall}, "ev": ev, "error": f"{a} {c}: {ex!r}"}
        ev.append({"a": a, "c": c, "arg": arg, **s.project()})
    for c, t in list(s.task.items()):      # let everything finish
        n = 0
        while not t.done and n < 10:
            s.current = c
            s._after(c, t.step())
            n += 1
    return {"cfg": {"ncall": ncall, "genbased": genbased, "suppress": suppress}, "ev": ev, "error": None,
            "errors": s.errors, "acct_ok": s.acct.ok()}


def beyond_bounds(tier, seed, v):
    from .tracecheck import validate  # noqa: PLC0415

    n = 300 if tier == "quick" else 6000
    stats = {"traces": 0, "events": 0, "states": 0, "wall": 0.0, "runs": 0}
    for (ncall, genbased, suppress) in ((5, True, False), (6, False, True), (7, True, True), (5, False, False)):
        jobs = [(seed * 92821 % (2 ** 31) + i + 1000 * ncall, ncall, genbased, suppress) for i in range(n // 4)]
        with mp.Pool(min(16, os.cpu_count() or 4)) as pool:
            hs = pool.map(random_run, jobs, chunksize=16)
        for h in hs:
            if h["error"]:
                v.violation("C15/decorator/calling-the-decorated-function-fails", {"engine": "decorator", "mode": "random", "cfg": h["cfg"], "observed": h["error"]})
            elif h["errors"]:
                kind = h["errors"][0][0] if h["errors"][0][0] in ("function-called-outside-its-context", "keyword-arguments-lost", "argument-of-the-manager-lost") else "calls-interfere"
                v.violation(f"C15/decorator/{kind}", {"engine": "decorator", "mode": "random", "cfg": h["cfg"], "observed": h["errors"][:3]})
        hs = [h for h in hs if not h["error"]]
        const = cfg_text(ncall, genbased, suppress, False, edges=False)
        const = const[: const.index("INIT Init")]
        rejected, st = validate("DecoratorTrace", [{"cfg": h["cfg"], "ev": h["ev"]} for h in hs], extra_cfg=const, spec="Spec2")
        for k in stats:
            stats[k] += st[k]
        for idx, matched in rejected.items():
            h = hs[idx]
            bad = h["ev"][matched] if matched < len(h["ev"]) else {"a": "missing"}
            v.violation(f"C15/decorator/trace-rejected-at-{bad.get('a')}",
                        {"engine": "decorator", "mode": "trace", "spec": "DecoratorTrace", "cfg": h["cfg"], "step": matched,
                         "matched_prefix": [[e["a"], e["c"], e["arg"]] for e in h["ev"][max(0, matched - 6): matched]], "rejected_event": bad})
    return stats


def stacking(L):
    """One manager object decorating a function twice (directly, and with a functools.wraps decorator in between): every
    call enters a context per decoration -- as with contextlib, whose managers can be stacked like any decorator."""
    import contextlib  # noqa: PLC0415
    import functools  # noqa: PLC0415
    out = []

    def passthrough(fn):
        @functools.wraps(fn)
        async def w(*a, **k):
            return await fn(*a, **k)
        return w

    def run(cmdeco, between):
        log = []

        @cmdeco
        async def m():
            log.append("enter")
            try:
                yield
            finally:
                log.append("exit")

        mgr = m()

        async def f(x):
            log.append("body")
            return ("result", x)

        g = mgr(passthrough(mgr(f))) if between else mgr(mgr(f))
        r = [Task(g(i), Accounting()).run() for i in (1, 2)]
        return {"log": log, "results": [repr(x) for x in r]}

    for between in (False, True):
        want = run(contextlib.asynccontextmanager, between)
        if want["log"] != ["enter", "enter", "body", "exit", "exit"] * 2:
            raise MachineryError(f"contextlib does not stack one manager twice as expected: {want}")
        got = run(L.contextmanager, between)
        if got != want:
            out.append(("C15/decorator/one-manager-stacked-twice-enters-once" if got["log"].count("enter") < 4 else "C15/decorator/one-manager-stacked-twice-differs",
                        {"engine": "scenario", "cfg": {"wraps_in_between": between}, "expected": want, "observed": got}))
    return out


def check(prop, tier, seed, into=None):
    v = into or Verdict(prop, tier, seed)
    label_counts = {}
    tot = {"states": 0, "transitions": 0, "paths": 0}
    for cfg in TIERS[tier]:
        res = run_tlc("Decorator", cfg_text(*cfg[:4]), outfiles=["edges.ndjson"], timeout=3000)
        tot["states"] += res["distinct"]
        tot["transitions"] += res["generated"]
        edges = read_ndjson(res["files"]["edges.ndjson"])
        for e_ in edges:
            label_counts[e_["a"][0]] = label_counts.get(e_["a"][0], 0) + 1
        paths = build_paths(edges, lambda f: all(x == "new" for x in f["pc"]))
        tot["paths"] += len(paths)
        with mp.Pool(min(16, os.cpu_count() or 4)) as pool:
            for out in pool.imap_unordered(replay_path, [(cfg, p) for p in paths], chunksize=max(1, len(paths) // 128)):
                for sig, d in out:
                    v.violation(sig, d)
        if paths:
            v.sample({"cfg": list(cfg), "schedule": [e["a"] for e in paths[len(paths) // 2]]})
    for sig, d in stacking(tm.load_lib()):
        v.violation(sig, d)
    tstats = beyond_bounds(tier, seed, v) if into is None else {}
    v.assumptions += ["enter, body and exit each suspend once; managers are the instrumented ones of harness/eng_decor.py"]
    vac = dict(label_counts)
    missing = [a for a in ["start", "entered", "bodyend", "exited", "cancel"] if not vac.get(a)]
    if missing:
        raise MachineryError(f"vacuity guard: actions never taken in the explored graphs: {missing}")
    return v.finish({
        "states": tot["states"], "transitions": tot["transitions"], "traces_validated_against_impl": tot["paths"],
        "edge_cover_paths": tot["paths"], "configs": [list(c) for c in TIERS[tier]], "exhaustive": True, "vacuity_guard_actions_taken": vac,
        "evaluations": tot["paths"], "distinct_nontrivial": tot["paths"], "random_schedules_validated_by_TLC": tstats,
        "rule": "one replay per transition of the Decorator state graph (shortest schedule + that step); random schedules of 5..7 overlapping calls validated against DecoratorTrace",
        "checker_cmd": "tlc spec/Decorator.tla (INVARIANTs OwnGenerator, Paired, Result)",
    })
