"""Real-event-loop conformance: tee, lru_cache and cached_property under asyncio.

Everything else in the harness drives coroutines by hand.  Here the same three concurrent objects
run as real asyncio tasks: `asyncio.Lock` as the user-supplied lock, `asyncio.sleep(0)` as the
only suspension, `Task.cancel()` as the cancellation (delivered wherever the task happens to wait:
inside the lock's acquire, inside the source / getter / wrapped function, or between two calls).
The schedules are seeded (asyncio's ready queue is FIFO, nothing depends on wall-clock time), the
events are appended by the one thread of the loop -- a total order needing no timestamps -- and
the recorded executions are validated by TLC against the same observation specs as the hand-driven
replays: spec/TeeObs.tla, spec/LruObs.tla, spec/CPropObs.tla.
"""
from __future__ import annotations

import asyncio
import multiprocessing as mp
import os
import random
import selectors
import signal
import weakref

from . import tm
from .instruments import InjectedError, Item


def me():
    return int(asyncio.current_task().get_name())


async def naps(rnd, hi):
    for _ in range(rnd.randint(0, hi)):
        await asyncio.sleep(0)


class Deadlock(BaseException):
    """Nothing is ready and nothing is scheduled: every task waits for something that cannot happen."""


class _Selector(selectors.DefaultSelector):
    # The scenarios use no I/O, no timers and no threads.  When the loop asks to block without a timeout,
    # no callback is ready and none is scheduled -- a deterministic test for "stuck", no clock involved.
    def select(self, timeout=None):
        if timeout is None:
            raise Deadlock()
        return super().select(timeout)


class _Busy(BaseException):
    pass


_BUSY = {"fired": 0}


def _busy(signum, frame):
    _BUSY["fired"] += 1
    if _BUSY["fired"] >= 3:      # (one firing may be a long garbage collection)
        raise _Busy()


def run_loop(main, trace=None):
    """Run one scenario on a fresh asyncio loop.  A scenario that can make no progress (Deadlock) or burns
    CPU without finishing (20 s of CPU time, not wall-clock) ends with a final event the observation
    specs have no action for, so TLC rejects the trace right there."""
    loop = asyncio.SelectorEventLoop(_Selector())
    loop.set_exception_handler(lambda loop_, ctx: None)     # what an abandoned scenario leaves behind is of no interest
    signal.signal(signal.SIGVTALRM, _busy)
    _BUSY["fired"] = 0
    signal.setitimer(signal.ITIMER_VIRTUAL, 20, 0.5)
    try:
        return loop.run_until_complete(main)
    except Deadlock:
        if trace is not None:
            trace.append({"e": "deadlock"})
        return None
    except _Busy:
        if trace is not None:
            trace.append({"e": "never-finishes"})
        return None
    finally:
        signal.setitimer(signal.ITIMER_VIRTUAL, 0, 0)
        try:
            for t in asyncio.all_tasks(loop):
                t.cancel()
            loop.run_until_complete(loop.shutdown_asyncgens())
        except BaseException:  # noqa: BLE001
            pass
        finally:
            loop.close()


# --------------------------------------------------------------------------- tee


def tee_scenario(seed):
    rnd = random.Random(seed)
    L = tm.load_lib()
    n, srclen = rnd.randint(2, 5), rnd.randint(0, 6)
    uselock = rnd.random() < 0.75
    susp = rnd.randint(0, 2) if uselock else 0          # without a lock the source never suspends (premise of C09)
    trace, pending = [], [0]
    cfg = {"n": n, "len": srclen, "lock": uselock, "susp": susp, "exitsusp": 0, "closable": True, "loop": "asyncio"}
    fail_at = rnd.randint(1, srclen + 1) if rnd.random() < 0.15 else 0
    fail = {"exc": None}

    def ev(**kw):
        trace.append(kw)

    def terminal(**kw):
        trace.append(kw)
        while pending[0]:      # the source was closed by the child that has just finished
            pending[0] -= 1
            trace.append({"e": "srcclose"})

    class Source:
        def __init__(self):
            self.items = [Item(1, p + 1, 1) for p in range(srclen)]
            if srclen >= 2:
                self.items[1] = None        # one item is the object None
            self.pos = 0
            self.calls = 0

        def __aiter__(self):
            return self

        async def __anext__(self):
            c = me()
            ev(e="enter", c=c)
            try:
                for _ in range(susp):
                    await asyncio.sleep(0)
                self.calls += 1
                if fail_at and self.calls == fail_at and fail["exc"] is None:
                    fail["exc"] = InjectedError("source failed")
                    raise fail["exc"]
                if self.pos >= len(self.items):
                    raise StopAsyncIteration
                self.pos += 1
                ev(e="fetch", x=self.pos, c=c)
                return self.items[self.pos - 1]
            finally:
                ev(e="leave", c=c)

        async def aclose(self):
            pending[0] += 1

    class QLock(asyncio.Lock):
        def __len__(self):          # reports its waiters: falsy whenever nobody waits, e.g. when handed over
            return len(self._waiters or ())

    async def main():
        lock = (QLock() if seed % 2 else asyncio.Lock()) if uselock else None
        tee = L.tee(Source(), n=n, lock=lock) if uselock else L.tee(Source(), n=n)
        # every consumer looks its child up when it starts (odd seeds: by index, even seeds: unpacked at once)
        children = [None] * n if seed % 2 else list(tee)
        plans = {c: (rnd.randint(1, srclen + 2), rnd.randint(0, 2)) for c in range(1, n + 1)}

        async def consumer(c):
            child = children[c - 1] if children[c - 1] is not None else tee[c - 1]
            children[c - 1] = None
            take, gap = plans[c]
            inside = False
            try:
                for k in range(take):
                    if k:
                        for _ in range(gap):
                            await asyncio.sleep(0)
                    inside = True
                    try:
                        v = await child.__anext__()
                    except StopAsyncIteration:
                        terminal(e="end", c=c)
                        return
                    inside = False
                    ev(e="recv", c=c, x=v.p if isinstance(v, Item) else 2 if (v is None and srclen >= 2) else -1)
                await child.aclose()
                terminal(e="closed", c=c)
            except asyncio.CancelledError:
                if inside:       # the cancellation went through the child: its generator is finished
                    terminal(e="cancelled", c=c)
                else:            # cancelled between two items: the owner closes the child
                    await child.aclose()
                    terminal(e="closed", c=c)
            except InjectedError as e:
                terminal(e="failed", c=c, same=e is fail["exc"])
            except BaseException as e:  # noqa: BLE001
                terminal(e="error", c=c, what=type(e).__name__)

        tasks = [asyncio.ensure_future(consumer(c)) for c in range(1, n + 1)]
        for c, t in enumerate(tasks, start=1):
            t.set_name(str(c))

        async def canceller(victims):
            for c, after in victims:
                for _ in range(after):
                    await asyncio.sleep(0)
                if not tasks[c - 1].done():
                    tasks[c - 1].cancel()

        victims = [(rnd.randint(1, n), rnd.randint(1, 8)) for _ in range(rnd.choice([0, 0, 1, 1, 2]))]
        killer = asyncio.ensure_future(canceller(victims))
        killer.set_name("0")
        await asyncio.gather(*tasks, killer, return_exceptions=True)
        locked = bool(lock and lock.locked())
        ev(e="quiesce")
        return locked

    locked = run_loop(_named(main(), "0"), trace)
    return {"cfg": cfg, "ev": trace, "seed": seed, "lock_left_held": locked, "kind": "tee"}


# --------------------------------------------------------------------------- lru_cache


def lru_scenario(seed):
    rnd = random.Random(seed)
    L = tm.load_lib()
    ntask, nkey = rnd.randint(2, 5), rnd.randint(1, 4)
    maxsize = rnd.choice([-1, 0, 1, 2, 3])
    fnsusp = rnd.randint(1, 3)
    trace = []
    cfg = {"maxsize": maxsize, "keys": nkey, "tasks": ntask, "fnsusp": fnsusp, "loop": "asyncio"}
    st = {"ninv": 0, "fail": {}, "probing": False}
    failing = {(rnd.randint(1, ntask), rnd.randint(1, 3)) for _ in range(rnd.choice([0, 0, 1]))}   # (task, its n-th invocation)
    ninv_of = {}

    def ev(**kw):
        trace.append(kw)

    async def fn(k):
        t = me()
        st["ninv"] += 1
        i = st["ninv"]
        if st["probing"]:       # sequential probes after quiescence: reported as one `probe` event each
            return ("val", k, i)
        ev(e="invoke", t=t, k=k, i=i)
        ninv_of[t] = ninv_of.get(t, 0) + 1
        for _ in range(fnsusp):
            await asyncio.sleep(0)
        if (t, ninv_of[t]) in failing:
            st["fail"][t] = InjectedError("fn failed")
            raise st["fail"][t]
        ev(e="fnret", i=i)
        return ("val", k, i)

    f = L.lru_cache(maxsize=None if maxsize < 0 else maxsize)(fn)

    def info():
        i = f.cache_info()
        ev(e="info", h=i.hits, m=i.misses, s=i.currsize)

    async def main():
        async def caller(t):
            for _ in range(rnd.randint(1, 4)):
                for _ in range(rnd.randint(0, 2)):
                    await asyncio.sleep(0)
                k = rnd.randint(1, nkey)
                ev(e="start", t=t, k=k)
                try:
                    v = await f(k)
                except asyncio.CancelledError:
                    ev(e="err", t=t, k=k, same=True, what="CancelledError")
                    return
                except InjectedError as e:
                    ev(e="err", t=t, k=k, same=e is st["fail"].get(t), what="InjectedError")
                    continue
                except BaseException as e:  # noqa: BLE001
                    ev(e="err", t=t, k=k, same=False, what=type(e).__name__)
                    return
                ok = isinstance(v, tuple) and len(v) == 3 and v[0] == "val"
                ev(e="ret", t=t, k=(v[1] if ok and v[1] == k else -1), i=v[2] if ok else 0)

        tasks = [asyncio.ensure_future(caller(t)) for t in range(1, ntask + 1)]
        for t, task in enumerate(tasks, start=1):
            task.set_name(str(t))

        async def meddler():
            for _ in range(rnd.randint(0, 4)):
                for _ in range(rnd.randint(1, 4)):
                    await asyncio.sleep(0)
                x = rnd.random()
                if x < 0.45:
                    info()
                elif x < 0.6:
                    f.cache_clear()
                    ev(e="clear")
                elif x < 0.75 and hasattr(f, "cache_discard"):
                    k = rnd.randint(1, nkey)
                    f.cache_discard(k)
                    ev(e="discard", k=k)
                else:
                    c = rnd.randint(1, ntask)
                    # a task can only be cancelled while it waits inside the call it has announced
                    if not tasks[c - 1].done() and _in_call(trace, c):
                        tasks[c - 1].cancel()

        m = asyncio.ensure_future(meddler())
        m.set_name("0")
        await asyncio.gather(*tasks, m, return_exceptions=True)
        ev(e="quiesce")
        info()
        st["probing"] = True
        for k in range(1, nkey + 1):
            before = st["ninv"]
            v = await f(k)
            ev(e="probe", k=k, inv=st["ninv"] > before, i=v[2] if isinstance(v, tuple) and len(v) == 3 else 0)
        info()

    def _in_call(tr, c):
        for e in reversed(tr):
            if e.get("t") == c and e["e"] in ("start", "ret", "err"):
                return e["e"] == "start"
        return False

    run_loop(_named(main(), "0"), trace)
    return {"cfg": cfg, "ev": trace, "seed": seed, "kind": "lru"}


async def _named(coro, name):
    asyncio.current_task().set_name(name)
    return await coro


# --------------------------------------------------------------------------- cached_property


def cprop_scenario(seed):
    rnd = random.Random(seed)
    L = tm.load_lib()
    ntask, ninst = rnd.randint(2, 5), rnd.randint(1, 2)
    uselock = rnd.random() < 0.7
    gsusp = rnd.randint(1, 3)
    trace = []
    # instances nobody else refers to (`await Res(..).attr`): each is an instance of its own, numbered as it appears
    eph_got = []
    cfg = {"tasks": ntask, "insts": ninst, "lock": uselock, "gsusp": gsusp, "exitsusp": False, "loop": "asyncio"}
    st = {"runs": 0, "fail": {}}
    locks = []
    failing = {rnd.randint(1, 6) for _ in range(rnd.choice([0, 0, 1]))}     # run numbers that fail

    def ev(**kw):
        trace.append(kw)

    class TLock(asyncio.Lock):
        def __init__(self):
            super().__init__()
            locks.append(weakref.ref(self))

    async def getter(inst):
        t = me()
        st["runs"] += 1
        r = st["runs"]
        ev(e="gstart", r=r, i=inst.idx, t=t)
        ok = False
        try:
            for _ in range(gsusp):
                await asyncio.sleep(0)
            if r in failing:
                st["fail"][t] = InjectedError("getter failed")
                raise st["fail"][t]
            ok = True
            return ("val", r)
        finally:
            ev(e="gend", r=r, ok=ok)

    deco = L.cached_property(TLock) if uselock else L.cached_property

    class ResBase:
        def __init__(self, idx):
            object.__setattr__(self, "idx", idx)

        def __setattr__(self, name, value):     # like a frozen dataclass: caching must not go through setattr
            raise AttributeError(f"cannot assign to field {name!r}")

        attr = deco(getter)

    class Res(ResBase):        # the property is inherited: instances are of a subclass of the class that defines it
        pass

    insts = {i: Res(i) for i in range(1, ninst + 1)}

    async def main():
        async def user(t):
            for _ in range(rnd.randint(1, 3)):
                for _ in range(rnd.randint(0, 2)):
                    await asyncio.sleep(0)
                if rnd.random() < 0.15:
                    eph_got.append(0)
                    i = ninst + len(eph_got)
                    cfg["insts"] = i
                    aw = Res(i).attr            # the only reference to the instance is the attribute just taken
                else:
                    i = rnd.randint(1, ninst)
                    aw = insts[i].attr
                ev(e="access", t=t, i=i)
                for _ in range(rnd.choice([0, 0, 1, 2])):     # take the attribute now, await it later
                    try:
                        await asyncio.sleep(0)
                    except asyncio.CancelledError:
                        ev(e="err", t=t, same=True, what="CancelledError")
                        return
                try:
                    v = await aw
                except asyncio.CancelledError:
                    ev(e="err", t=t, same=True, what="CancelledError")
                    return
                except InjectedError as e:
                    ev(e="err", t=t, same=e is st["fail"].get(t), what="InjectedError")
                    continue
                except BaseException as e:  # noqa: BLE001
                    ev(e="err", t=t, same=False, what=type(e).__name__)
                    return
                ev(e="got", t=t, i=i, v=v[1] if isinstance(v, tuple) and len(v) == 2 else -1)
                if i > ninst and isinstance(v, tuple):
                    eph_got[i - ninst - 1] = v[1]

        tasks = [asyncio.ensure_future(user(t)) for t in range(1, ntask + 1)]
        for t, task in enumerate(tasks, start=1):
            task.set_name(str(t))

        async def meddler():
            for _ in range(rnd.randint(0, 3)):
                for _ in range(rnd.randint(1, 4)):
                    await asyncio.sleep(0)
                if rnd.random() < 0.6:
                    i = rnd.randint(1, ninst)
                    if "attr" in insts[i].__dict__:
                        del insts[i].attr
                        ev(e="del", i=i)
                else:
                    c = rnd.randint(1, ntask)
                    if not tasks[c - 1].done() and _holding(trace, c):
                        tasks[c - 1].cancel()

        m = asyncio.ensure_future(meddler())
        m.set_name("0")
        await asyncio.gather(*tasks, m, return_exceptions=True)
        held = sum(1 for w in locks if w() is not None and w().locked())
        slots = []
        for i in sorted(insts):
            o = insts[i].__dict__.get("attr")
            val = getattr(o, "value", None) if type(o).__name__ == "AwaitableValue" else None
            slots.append(val[1] if isinstance(val, tuple) else 0)
        slots += eph_got     # the throw-away instances are gone: what their one await returned is what they had cached
        cfg["insts"] = ninst + len(eph_got)
        ev(e="quiesce", held=held, slots=slots, stuck=[])

    def _holding(tr, c):
        for e in reversed(tr):
            if e.get("t") == c and e["e"] in ("access", "got", "err"):
                return e["e"] == "access"
        return False

    run_loop(_named(main(), "0"), trace)
    return {"cfg": cfg, "ev": trace, "seed": seed, "kind": "cprop"}


# --------------------------------------------------------------------------- batches

SCENARIOS = {"tee": (tee_scenario, "TeeObs"), "lru": (lru_scenario, "LruObs"), "cprop": (cprop_scenario, "CPropObs")}


def _run(args):
    kind, seed = args
    try:
        before = len(tm.LIB_ASYNCIO_CALLS)
        tr = SCENARIOS[kind][0](seed)
        if len(tm.LIB_ASYNCIO_CALLS) != before:
            # the library itself reached for asyncio (a loop, a task, a future, a sleep): under this loop it works,
            # under any other it would not -- an event none of the observation specs has an action for
            tr["ev"].append({"e": "library-uses-asyncio", "what": tm.LIB_ASYNCIO_CALLS[before:][:3]})
        return tr
    except Exception as e:  # noqa: BLE001 - the scenario itself must never fail
        return {"cfg": {}, "ev": [], "seed": seed, "kind": kind, "crash": repr(e)}


def collect(kind, n, seed):
    """Run n seeded scenarios of one kind and validate them; returns (traces, rejected, stats)."""
    from .tracecheck import validate  # noqa: PLC0415
    from .tlc import MachineryError  # noqa: PLC0415

    jobs = [(kind, (seed * 7919 + j) % (2 ** 31)) for j in range(n)]
    with mp.Pool(min(16, os.cpu_count() or 4)) as pool:
        traces = pool.map(_run, jobs, chunksize=max(1, n // 64))
    crashed = [t for t in traces if t.get("crash")]
    if crashed:
        raise MachineryError(f"asyncio scenario crashed: {crashed[0]}")
    rejected, st = validate(SCENARIOS[kind][1], [{"cfg": t["cfg"], "ev": t["ev"]} for t in traces])
    return traces, rejected, st


def traces_for(kind, tier, seed):
    """Seeded asyncio executions of one kind, shaped like the random-schedule traces of the engines."""
    n = {"mini": 200, "quick": 1000, "thorough": 20000}[tier]
    jobs = [(kind, (seed * 7919 + j) % (2 ** 31)) for j in range(n)]
    with mp.Pool(min(16, os.cpu_count() or 4)) as pool:
        traces = pool.map(_run, jobs, chunksize=max(1, n // 64))
    crashed = [t for t in traces if t.get("crash")]
    if crashed:
        from .tlc import MachineryError  # noqa: PLC0415
        raise MachineryError(f"asyncio scenario crashed: {crashed[0]}")
    for t in traces:
        t["path"] = ["asyncio", t["seed"]]
        t["drift"] = None
    return traces
