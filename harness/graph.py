"""Edge-cover of a TLC state graph written as NDJSON transitions {f, a, t}."""
from __future__ import annotations

import json
from collections import deque

from .tlc import MachineryError


def key(st):
    return json.dumps(st, sort_keys=True)


def build_paths(edges, is_init):
    """Return one path (list of edges) per transition: shortest path to its source + the edge."""
    succ, init = {}, None
    for e in edges:
        k = key(e["f"])
        succ.setdefault(k, []).append(e)
        if init is None and is_init(e["f"]):
            init = k
    if init is None:
        raise MachineryError("no initial state among the emitted transitions")
    parent = {init: None}
    q = deque([init])
    while q:
        u = q.popleft()
        for e in succ.get(u, []):
            v = key(e["t"])
            if v not in parent:
                parent[v] = (u, e)
                q.append(v)
    paths = []
    for u, es in succ.items():
        if u not in parent:
            continue
        pre, x = [], u
        while parent[x] is not None:
            x, e = parent[x]
            pre.append(e)
        pre.reverse()
        seen = set()
        for e in es:
            lab = key(e["a"]) + key(e["t"])
            if lab in seen:
                continue
            seen.add(lab)
            paths.append(pre + [e])
    return paths


def stream_replays(pool, fn, jobs, rnd, cap, chunk=None):
    """Run replays with bounded memory: keep every drifted result, a reservoir sample of at most
    `cap` clean ones, and the results whose token accounting failed.  Returns
    (drifted, sample, bad_acct, n_clean)."""
    drifted, sample, bad, n, flagged = [], [], [], 0, []
    chunk = chunk or max(1, len(jobs) // 512)
    for r in pool.imap_unordered(fn, jobs, chunksize=chunk):
        if not r.get("acct_ok", True):
            bad.append({"path": r["path"], "cfg": r["cfg"]})
        if r.get("drift") or r.get("probes"):
            (drifted if r.get("drift") else flagged).append(r)
            continue
        n += 1
        if len(sample) < cap:
            sample.append(r)
        else:
            j = rnd.randrange(n)
            if j < cap:
                sample[j] = r
    return drifted, flagged + sample, bad, n
