"""ExitStack engine (C14): histories of register/enter-fail/pop_all/leave/aclose vs
spec/ExitStack.tla vs nested `async with` vs contextlib.AsyncExitStack.

Every transition of the model's state graph is replayed: registrations with rotating
concrete kinds (async CM, sync CM, pushed async/sync exit callable, pushed manager, async/sync
callback with arguments), unwinds as one real __aexit__/aclose call whose exit log is
compared event by event with the model's RunExit steps and whose outcome with Finish.
"""
from __future__ import annotations

import contextlib
import json
import functools
import multiprocessing as mp
import os

from . import tm
from .driver import Accounting, Suspend, Task
from .instruments import Cancelled
from .graph import build_paths
from .report import Verdict
from .tlc import MachineryError, read_ndjson, run_tlc

EXIT_KINDS = ["acm", "cm", "pusha", "pushs", "pushcm", "pusho", "pushp", "pushx"]   # ... pushed callable object / partial(async def) / object with __aexit__ only
CB_KINDS = ["cba", "cbs", "cbk", "cbp", "cbo", "cbw"]   # async def / def / keyword-only def / partial(async def) / callable object / def returning a non-coroutine awaitable


class BlockError(Exception):
    def __bool__(self):      # an exception is one whatever its truth value
        return False


class NewError(Exception):
    def __bool__(self):      # an exception is one whatever its truth value
        return False


class EnterError(Exception):
    pass


class NewBaseError(BaseException):
    """A new exception that is not an Exception (like a cancellation)."""


class World:
    """The entries of one history and the log of their exits."""

    def __init__(self, salt=0):
        self.salt = salt
        self.nent = 0             # entries so far (registered + pushed during unwinds), as the spec numbers them
        self.current = None       # the stack being unwound (what a "push" exit registers on)
        self.std = False
        self.log = []  # (entry, label of the exception received)
        self.block = None
        self.new = {}
        self.args_ok = True
        self.excinfo_ok = True    # every exit gets (None, None, None) or (type(exc), exc, traceback) -- never a mixture
        self.popall_hook = None   # what a "popall" exit does (set per unwind by the replay)
        self.acct = Accounting()

    def exc_of(self, e):
        if e not in self.new:
            self.new[e] = (NewBaseError if (e + self.salt) % 2 else NewError)(f"entry {e}")
        return self.new[e]

    def label(self, exc):
        if exc is None:
            return "none"
        if exc is self.block:
            return "block"
        if any(exc is x for x in self.new.values()):
            return "new"
        return "other:" + type(exc).__name__

    def chk(self, et, ev):
        if (et is None) != (ev is None) or (ev is not None and et is not type(ev)):
            self.excinfo_ok = False

    def core(self, e, beh, exc):
        if _HUNG["now"]:       # the guard has fired: do nothing any more, so that whatever loops on our behalf runs dry
            return False
        self.log.append((e, self.label(exc)))
        if beh == "push":
            self.nent += 1
            e2 = self.nent
            if self.current is not None:     # ExitStack / AsyncExitStack: one more callback, same stack
                self.current.callback(lambda a, kw=None, e2=e2: self.core(e2, "falsy", None), "arg", kw=1)
            return False
        if beh == "popall":
            if self.popall_hook is not None:
                self.popall_hook()
            return False
        if beh == "raise" or (beh == "raisewh" and exc is not None):
            raise self.exc_of(e)
        if beh == "reraise" and exc is not None:
            raise exc
        # a suppressing exit says so with any true value, not only with True
        return (True, 1, "yes", [0])[(e + self.salt) % 4] if beh == "truthy" else (False, 0, "", None)[(e + self.salt) % 4]

    def make(self, e, ckind, beh, slow=False):
        """Return (register(stack) coroutine function for ExitStack-likes, context manager for nesting)."""
        w = self

        class ACM:
            async def __aenter__(self):
                if slow:        # entering takes its time: the stack may be used meanwhile
                    await Suspend(w.acct, ("aenter", e))
                return ("value", e)

            async def __aexit__(self, et, ev, tb):
                w.chk(et, ev)
                return w.core(e, beh, ev)

            # ... which also has the synchronous protocol, as a stub that tells people to use `async with`
            # (`async with` never looks at it, so neither may the stack)
            def __enter__(self):
                raise TypeError("use 'async with'")

            def __exit__(self, et, ev, tb):
                return False

        class CM:
            def __enter__(self):
                return ("value", e)

            def __exit__(self, et, ev, tb):
                w.chk(et, ev)
                return w.core(e, beh, ev)

        async def aexit(et, ev, tb):
            w.chk(et, ev)
            return w.core(e, beh, ev)

        def sexit(et, ev, tb):
            w.chk(et, ev)
            return w.core(e, beh, ev)

        class OnlyExit:           # an object that can only be exited (no __aenter__): pushed, never entered
            async def __aexit__(self, et, ev, tb):
                w.chk(et, ev)
                return w.core(e, beh, ev)

        class ObjExit:            # an object whose call returns a coroutine, pushed as an exit callable
            def __call__(self, et, ev, tb):
                return aexit(et, ev, tb)

        async def aexit3(_extra, et, ev, tb):
            return await aexit(et, ev, tb)

        pexit = functools.partial(aexit3, None)

        async def acb(a, kw=None):
            if (a, kw) != ("arg", 1):
                w.args_ok = False
            return w.core(e, beh, None)

        def scb(a, kw=None):
            if (a, kw) != ("arg", 1):
                w.args_ok = False
            return w.core(e, beh, None)

        class ObjCb:              # an object whose call returns a coroutine
            def __call__(self, a, kw=None):
                return acb(a, kw)

        async def acb3(_extra, a, kw=None):
            return await acb(a, kw)

        pcb = functools.partial(acb3, None)

        class Waitable:           # an awaitable that is no coroutine (like a future)
            def __init__(self, coro):
                self.coro = coro

            def __await__(self):
                return self.coro.__await__()

        def wcb(a, kw=None):      # a plain function handing back such an awaitable: it has to be awaited all the same
            return Waitable(acb(a, kw))

        def kcb(kw=None):        # registered with a keyword argument only
            if kw != 1:
                w.args_ok = False
            return w.core(e, beh, None)

        class CBCM:  # what a callback is in terms of nested with-statements
            async def __aenter__(self):
                return None

            async def __aexit__(self, et, ev, tb):
                w.core(e, beh, None)
                return False

        async def reg_async(stack):  # asyncstdlib.ExitStack
            if ckind in ("acm", "cm"):
                v = await stack.enter_context(ACM() if ckind == "acm" else CM())
                if v != ("value", e):
                    w.args_ok = False
            elif ckind == "pusha":
                stack.push(aexit)
            elif ckind == "pushs":
                stack.push(sexit)
            elif ckind == "pushcm":
                stack.push(ACM())
            elif ckind == "pusho":
                stack.push(ObjExit())
            elif ckind == "pushp":
                stack.push(pexit)
            elif ckind == "pushx":
                stack.push(OnlyExit())
            elif ckind == "cba":
                stack.callback(acb, "arg", kw=1)
            elif ckind == "cbk":
                stack.callback(kcb, kw=1)
            elif ckind == "cbp":
                stack.callback(pcb, "arg", kw=1)
            elif ckind == "cbo":
                stack.callback(ObjCb(), "arg", kw=1)
            elif ckind == "cbw":
                stack.callback(wcb, "arg", kw=1)
            else:
                stack.callback(scb, "arg", kw=1)

        async def reg_std(stack):  # contextlib.AsyncExitStack
            if ckind == "acm":
                await stack.enter_async_context(ACM())
            elif ckind == "cm":
                stack.enter_context(CM())
            elif ckind == "pusha":
                stack.push_async_exit(aexit)
            elif ckind == "pushs":
                stack.push(sexit)
            elif ckind == "pushcm":
                stack.push_async_exit(ACM())
            elif ckind == "pusho":
                stack.push_async_exit(ObjExit())
            elif ckind == "pushp":
                stack.push_async_exit(pexit)
            elif ckind == "pushx":
                stack.push_async_exit(OnlyExit())
            elif ckind == "cba":
                stack.push_async_callback(acb, "arg", kw=1)
            elif ckind == "cbk":
                stack.callback(kcb, kw=1)
            elif ckind == "cbp":
                stack.push_async_callback(pcb, "arg", kw=1)
            elif ckind == "cbo":
                stack.push_async_callback(ObjCb(), "arg", kw=1)
            elif ckind == "cbw":
                stack.push_async_callback(wcb, "arg", kw=1)
            else:
                stack.callback(scb, "arg", kw=1)

        nest = CBCM() if ckind in CB_KINDS else (contextlib.nullcontext() if False else ACM())
        return reg_async, reg_std, nest


class EnterAttributeError(AttributeError):
    pass


class OuterError(Exception):
    pass


async def while_handling(make_aw):
    """Await something inside an except block: another exception is `being handled` around it."""
    try:
        raise OuterError()
    except OuterError:
        return await make_aw()


def run(aw, acct):
    r = Task(aw, acct).run()
    if r[0] == "done":
        return ("ok", r[1])
    return ("raised", r[1])


def outcome_of(w, res, recv):
    if res[0] == "ok":
        if recv and res[1]:
            return ["suppressed", 0]
        return ["same", 100] if recv else ["none", 0]
    exc = res[1]
    if exc is w.block:
        return ["same", 100]
    for e, x in w.new.items():
        if exc is x:
            return ["new", 200 + e]
    return ["other:" + type(exc).__name__, -1]


async def nested(cms, exc):
    """The equivalent nested async-with statements, innermost = last registered."""
    if not cms:
        if exc is not None:
            raise exc
        return
    async with cms[0]:
        await nested(cms[1:], exc)


def concrete(e, k, salt):
    ks = EXIT_KINDS if k == "exit" else CB_KINDS
    return ks[(e + salt) % len(ks)]


class Hang(BaseException):
    pass


_HUNG = {"now": False, "count": 0}
_STOP = mp.Value("i", 0)     # set by the parent once enough hangs were seen: the remaining replays return at once


def _alarm(*_):
    # fires again and again (the timer is periodic): a loop that swallows BaseException swallows the first Hang
    _HUNG["fired"] = _HUNG.get("fired", 0) + 1
    if _HUNG["fired"] < 3:
        # One firing is not a hang: a full garbage collection in a worker that holds millions of jobs burns seconds
        # of CPU inside a single replay.  A pause is over when the handler gets to run and the replay then finishes
        # at once; a real loop is still there half a second and a second of CPU time later.
        return
    _HUNG["now"] = True
    if _HUNG["fired"] > 60:      # half a minute of CPU after the first firing: nothing cooperative helped
        os._exit(70)             # the parent notices the missing result (bounded wait) and reports the hang
    raise Hang()


def _arm():
    import signal  # noqa: PLC0415
    signal.signal(signal.SIGVTALRM, _alarm)
    _HUNG["now"] = False
    _HUNG["fired"] = 0
    signal.setitimer(signal.ITIMER_VIRTUAL, 10 if _HUNG["count"] < 3 else 2, 0.5)


def _disarm():
    import signal  # noqa: PLC0415
    signal.setitimer(signal.ITIMER_VIRTUAL, 0, 0)


def replay_path(args):
    """Guarded replay: an operation that does not return is reported as a hang.  The guard is
    CPU time (10 s, far above the microseconds a replay takes; 2 s once a worker has seen
    three hangs); whatever the interrupted replay produced is discarded."""
    import signal  # noqa: PLC0415

    if _STOP.value:
        return []
    # CPU time of this process, not wall-clock: an infinite loop burns it, a loaded machine does not
    _arm()
    out = None
    try:
        out = _replay_path(args)
    except Hang:
        pass
    except BaseException:  # noqa: BLE001
        if not _HUNG["now"]:
            raise
    finally:
        _disarm()
    if _HUNG["now"]:
        _HUNG["count"] += 1
        path, salt = args
        return [("C14/ExitStack/unwind-never-returns", {"engine": "exitstack", "spec": "ExitStack", "path": [e["a"] for e in path], "salt": salt,
                                                        "expected": "the unwind completes", "observed": "no return within the guard time (infinite loop)"})]
    return out


def _replay_path(args):
    path, salt = args
    L = tm.load_lib()
    w = World(salt)        # asyncstdlib.ExitStack
    w2 = World(salt)       # contextlib.AsyncExitStack
    wn = World(salt)       # nested with-statements (per unwind)
    # another stack that merely exists alongside, with one callback of its own: nothing of this history is its business
    bystander, by_log = L.ExitStack(), []
    bystander.callback(lambda: by_log.append("ran"))
    stack = L.ExitStack()
    std = contextlib.AsyncExitStack()
    stacks = {"main": stack, "moved": None}
    stds = {"main": std, "moved": None}
    entries = {"main": [], "moved": []}
    out = []
    cur = None   # the unwind in progress: dict(log index, expected ...)
    skip_register = False

    def bad(cls, step, detail):
        out.append((f"C14/ExitStack/{cls}", {"engine": "exitstack", "spec": "ExitStack", "path": [e["a"] for e in path], "salt": salt, "step": step, **detail}))

    for j, ed in enumerate(path):
        a = ed["a"]
        op = a[0]
        if op == "register" and skip_register:
            skip_register = False
            continue
        if op == "register":
            e, k, b = a[1], a[2], a[3]
            w.nent = w2.nent = e
            ck = concrete(e, k, salt)
            ra, rs, _ = w.make(e, ck, b)
            r = run(ra(stack), w.acct)
            _, rs2, _ = w2.make(e, ck, b)
            run(rs2(std), w2.acct)
            entries["main"].append((e, ck, b))
            if r[0] != "ok":
                bad("register-raises", j, {"observed": repr(r[1])})
        elif op == "enterfail":
            # how entering fails rotates: an ordinary error, an AttributeError (which must not be mistaken for
            # "has no __aenter__": the manager also offers the synchronous protocol), or a cancellation that
            # arrives while __aenter__ is suspended.  In no case may anything of it be registered.
            mode = ("error", "attributeerror", "cancelled", "syncerror")[(salt + j) % 4]
            thrown = Cancelled("cancel")

            class Failing:
                async def __aenter__(self):
                    if mode == "cancelled":
                        await Suspend(w.acct, ("aenter", 0))
                    raise (EnterAttributeError if mode == "attributeerror" else EnterError)()

                async def __aexit__(self, *a):
                    w.log.append((0, "failed-enter-exited"))

                def __enter__(self):
                    w.log.append((0, "entered-through-the-synchronous-protocol"))
                    return self

                def __exit__(self, *a):
                    w.log.append((0, "failed-enter-exited"))

            class FailingSync:        # a manager of the synchronous protocol only, whose __enter__ raises
                def __enter__(self):
                    raise EnterError()

                def __exit__(self, *a):
                    w.log.append((0, "failed-enter-exited"))

            if mode == "syncerror":
                r = run(stack.enter_context(FailingSync()), w.acct)
                ok = r[0] == "raised" and type(r[1]) is EnterError
            elif mode == "cancelled":
                t_ = Task(stack.enter_context(Failing()), w.acct)
                r = t_.step()
                r = t_.throw(thrown) if r[0] == "token" else r
                r = ("raised", r[1]) if r[0] == "raised" else ("ok", r[1])
                ok = r[0] == "raised" and r[1] is thrown
            else:
                r = run(stack.enter_context(Failing()), w.acct)
                ok = r[0] == "raised" and type(r[1]) is (EnterAttributeError if mode == "attributeerror" else EnterError)
            if not ok:
                bad("enter-failure-not-propagated", j, {"observed": repr(r), "mode": mode})
        elif op == "popall":
            nxt = path[j + 1]["a"] if j + 1 < len(path) else None
            if nxt is not None and nxt[0] == "register" and nxt[2] == "exit" and (salt + j) % 2 == 0:
                # the two model steps "pop_all; register" as ONE interleaving of the implementation: enter_context
                # has started and is suspended inside __aenter__ when pop_all() is called; when the enter completes
                # its exit belongs to the original stack (it was not registered yet when everything was moved)
                e, k, b = nxt[1], nxt[2], nxt[3]
                w.nent = w2.nent = e
                ra, _, _ = w.make(e, "acm", b, slow=True)
                _, rs2, _ = w2.make(e, "acm", b, slow=True)
                t1, t2 = Task(ra(stack), w.acct), Task(rs2(std), w2.acct)
                t1.step()
                t2.step()
                stacks["moved"] = stack.pop_all()
                stds["moved"] = std.pop_all()
                r = t1.run() if not t1.done else ("done", None)
                if not t2.done:
                    t2.run()
                if r[0] == "raised":
                    bad("register-raises", j, {"observed": repr(r[1])})
                entries["moved"], entries["main"] = entries["main"], [(e, "acm", b)]
                skip_register = True
                continue
            stacks["moved"] = stack.pop_all()
            stds["moved"] = std.pop_all()
            entries["moved"], entries["main"] = entries["main"], []
        elif op in ("leave", "aclose", "leave2", "aclose2"):
            which = a[2]
            x = a[1]
            tgt = stacks[which]
            tstd = stds[which]
            for ww in (w, w2):
                ww.block = BlockError() if x else None
            start = len(w.log)
            start2 = len(w2.log)
            w.current, w2.current = tgt, tstd
            nent0 = w.nent

            def mk_hook(dct, which_=which):
                def hook():
                    if which_ == "main" and dct["moved"] is None:
                        dct["moved"] = dct["main"].pop_all()
                return hook
            w.popall_hook, w2.popall_hook = mk_hook(stacks), mk_hook(stds)
            # the first "popall" exit to run (the last registered one) ends this unwind: what was registered
            # before it moves to the new stack
            trigger = None
            if which == "main" and stacks["moved"] is None:
                for idx_ in range(len(entries[which]) - 1, -1, -1):
                    if entries[which][idx_][2] == "popall":
                        trigger = idx_
                        break
            running = entries[which] if trigger is None else entries[which][trigger:]
            left_over = [] if trigger is None else entries[which][:trigger]
            if op.startswith("aclose"):
                if salt % 2:     # aclose() unwinds with "no exception", whatever is being handled around it
                    res = run(while_handling(tgt.aclose), w.acct)
                    res2 = run(while_handling(tstd.aclose), w2.acct)
                else:
                    res = run(tgt.aclose(), w.acct)
                    res2 = run(tstd.aclose(), w2.acct)
            else:
                ev = w.block
                res = run(tgt.__aexit__(type(ev) if ev is not None else None, ev, None), w.acct)
                ev2 = w2.block
                res2 = run(tstd.__aexit__(type(ev2) if ev2 is not None else None, ev2, None), w2.acct)
            # the nested with-statement twin over the entries the model says are owned
            wn = World(salt)
            wn.block = BlockError() if x else None
            # a "push" exit registers one more callback that runs right after it: in terms of nested
            # statements, a callback-manager just outside the pushing one (ids in unwinding order)
            pushed, nid = {}, nent0
            for (e, ck, b) in reversed(running):
                if b == "push":
                    nid += 1
                    pushed[e] = nid
            cms = []
            for (e, ck, b) in running:
                if e in pushed:
                    cms.append(wn.make(pushed[e], "cba", "falsy")[2])
                cms.append(wn.make(e, ck, b)[2])
            resn = run(nested(cms, wn.block), wn.acct)
            if resn[0] == "raised" and resn[1] is wn.block:
                resn_out = ["same", 100]
            elif resn[0] == "ok":
                resn_out = ["suppressed", 0] if x else ["none", 0]
            else:
                resn_out = outcome_of(wn, resn, bool(x))
            entries[which] = []
            if trigger is not None:
                entries["moved"] = left_over
            cur = {"log": w.log[start:], "res": outcome_of(w, res, bool(x)), "k": 0, "step": j,
                   "std_log": w2.log[start2:], "std_res": outcome_of(w2, res2, bool(x)),
                   "nest_log": wn.log, "nest_res": resn_out}
        elif op == "exit":
            e, seen = a[1], a[2]
            if cur is None:
                raise MachineryError("exit step without unwind")
            k = cur["k"]
            cur["k"] += 1
            exp = (e, seen)
            for name in ("nest_log", "std_log"):
                if k >= len(cur[name]) or tuple(cur[name][k]) != exp:
                    raise MachineryError(f"ExitStack spec disagrees with {name}: path={[x['a'] for x in path]} at {j}: expected {exp} got {cur[name][k:k+1]}")
            if k >= len(cur["log"]):
                bad("exit-not-run", j, {"expected": exp, "observed": cur["log"]})
                break
            if tuple(cur["log"][k]) != exp:
                got = cur["log"][k]
                cls = "wrong-order" if got[0] != e else f"received-{got[1]}-instead-of-{seen}"
                bad(cls, j, {"expected": exp, "observed": got, "exit_log": cur["log"]})
                break
        elif op == "finish":
            exp = [a[2], a[1]]
            for name in ("nest_res", "std_res"):
                if cur[name] != exp:
                    raise MachineryError(f"ExitStack spec outcome disagrees with {name}: path={[x['a'] for x in path]}: expected {exp} got {cur[name]}")
            if cur["k"] != len(cur["log"]):
                extra = cur["log"][cur["k"]:]
                cls = "exit-ran-again" if any(extra_e in [x[0] for x in w.log[: len(w.log) - len(cur["log"]) + cur["k"]]] for extra_e, _ in extra) else "extra-exit"
                bad(cls, j, {"expected_exits": cur["k"], "observed": cur["log"]})
                break
            if cur["res"] != exp:
                bad(f"outcome-{cur['res'][0]}-instead-of-{exp[0]}", j, {"expected": exp, "observed": cur["res"], "exit_log": cur["log"]})
                break
            cur = None
    if not out:
        if by_log:
            bad("exit-of-another-stack-ran", len(path), {"observed": by_log})
        else:
            run(bystander.aclose(), w.acct)
            if by_log != ["ran"]:
                bad("exit-of-another-stack-lost", len(path), {"observed": by_log})
    if not out and not w.args_ok:
        bad("callback-arguments-or-enter-value", len(path), {})
    if not out and not w.excinfo_ok:
        bad("exit-received-inconsistent-exception-details", len(path), {})
    if not w2.excinfo_ok:
        raise MachineryError("contextlib.AsyncExitStack hands inconsistent exception details to an exit")
    if not out and not w.acct.ok():
        bad("foreign-suspension", len(path), {})
    return out


def random_history(args):
    """Guarded like replay_path: a history in which some unwind never returns is reported as such."""
    import signal  # noqa: PLC0415

    if _STOP.value:
        return {"ev": [], "error": None, "acct_ok": True, "skipped": True}
    _arm()
    try:
        r_ = _random_history(args)
        if not _HUNG["now"]:
            return r_
    except Hang:
        pass
    except BaseException:  # noqa: BLE001
        if not _HUNG["now"]:
            raise
    finally:
        _disarm()
    _HUNG["count"] += 1
    return {"ev": [], "error": "an unwind never returns (infinite loop; stopped by the CPU-time guard)", "hang": True}


def _random_history(args):
    """A longer random history of the real ExitStack, recorded in the vocabulary of the spec."""
    import random  # noqa: PLC0415

    seed, = args
    rnd = random.Random(seed)
    L = tm.load_lib()
    w = World(seed % 5)
    stack = L.ExitStack()
    stacks = {"main": stack, "moved": None}
    ev, nent = [], 0
    behs = ["falsy", "truthy", "raise", "raisewh", "reraise", "push", "popall"]
    for _ in range(rnd.randint(4, 12)):
        x = rnd.random()
        if x < 0.5 and w.nent < 7:
            k, b = rnd.choice(["exit", "exit", "cb"]), rnd.choice(behs)
            w.nent += 1
            nent = w.nent
            ra, _, _ = w.make(nent, concrete(nent, k, seed % 5), b)
            r = run(ra(stack), w.acct)
            if r[0] != "ok":
                return {"ev": ev, "error": f"register raised {r[1]!r}"}
            ev.append({"op": "register", "e": nent, "k": k, "b": b})
        elif x < 0.56:
            class Failing:
                async def __aenter__(self):
                    raise EnterError()

                async def __aexit__(self, *a):
                    w.log.append((0, "failed-enter-exited"))
            run(stack.enter_context(Failing()), w.acct)
            ev.append({"op": "enterfail"})
        elif x < 0.64 and stacks["moved"] is None:
            stacks["moved"] = stack.pop_all()
            ev.append({"op": "popall"})
        else:
            which = "moved" if (stacks["moved"] is not None and rnd.random() < 0.4) else "main"
            xx = 100 if rnd.random() < 0.5 else 0
            acl = xx == 0 and rnd.random() < 0.5
            lab = {("main", True): "aclose", ("main", False): "leave", ("moved", True): "aclose2", ("moved", False): "leave2"}[(which, acl)]
            w.block = BlockError() if xx else None
            start = len(w.log)
            tgt = stacks[which]
            w.current = tgt

            def hook(which_=which):
                if which_ == "main" and stacks["moved"] is None:
                    stacks["moved"] = stacks["main"].pop_all()
            w.popall_hook = hook
            if acl:
                res = run(tgt.aclose(), w.acct)
            else:
                res = run(tgt.__aexit__(type(w.block) if xx else None, w.block, None), w.acct)
            ev.append({"op": "begin", "which": which, "x": xx, "lab": lab})
            for e, seen in w.log[start:]:
                ev.append({"op": "exit", "e": e, "seen": seen})
            out = outcome_of(w, res, bool(xx))
            ev.append({"op": "finish", "label": out[0], "id": out[1]})
    return {"ev": ev, "error": None, "acct_ok": w.acct.ok()}


def beyond_bounds(tier, seed, v):
    from .tracecheck import validate  # noqa: PLC0415

    n = 500 if tier == "quick" else 10000
    hs, hangs = [], 0
    with mp.Pool(min(16, os.cpu_count() or 4)) as pool:
        for h in results_of(pool, random_history, [(seed * 69621 % (2 ** 31) + i,) for i in range(n)], 8):
            if h is None:
                v.violation(*LOST)
                break
            hs.append(h)
            hangs += bool(h.get("hang"))
            if hangs >= 12:
                _STOP.value = 1
    for h in hs:
        if h["error"]:
            v.violation("C14/ExitStack/unwind-never-returns" if h.get("hang") else "C14/ExitStack/operation-raises",
                        {"engine": "exitstack", "mode": "random", "observed": h["error"], "history": h["ev"][-5:]})
    hs = [h for h in hs if not h["error"] and not h.get("skipped")]
    const = cfg_text(16, 1000, edges=False)
    const = const[: const.index("INIT Init")]
    rejected, st = validate("ExitStackTrace", [{"cfg": {}, "ev": h["ev"]} for h in hs], extra_cfg=const, spec="Spec2")
    for idx, matched in rejected.items():
        h = hs[idx]
        bad = h["ev"][matched] if matched < len(h["ev"]) else {"op": "missing-events"}
        v.violation(f"C14/ExitStack/trace-rejected-at-{bad.get('op')}",
                    {"engine": "exitstack", "mode": "trace", "spec": "ExitStackTrace", "step": matched,
                     "matched_prefix": h["ev"][max(0, matched - 6): matched], "rejected_event": bad})
    return st


def cfg_text(maxent, maxops, edges=True):
    return f"""CONSTANTS
  MaxEntries = {maxent}
  MaxOps = {maxops}
  EdgeFile = "{'@OUT:edges.ndjson@' if edges else ''}"
INIT Init
NEXT Next
VIEW View
CHECK_DEADLOCK FALSE
INVARIANT NestedEq
INVARIANT Once
INVARIANT OnlyOwner
""" + ("ACTION_CONSTRAINT EmitEdge\n" if edges else "")


def _run_chunk(args):
    fn, chunk = args
    return [fn(j) for j in chunk]


def results_of(pool, fn, jobs, chunksize, idle=240):
    """imap_unordered with a bounded wait: a worker that had to kill itself (see _alarm) takes its task with it, and
    the result never comes.  After `idle` seconds without any result the remaining workers are killed and the
    caller is told with a final `None`."""
    chunks = [(fn, jobs[i: i + chunksize]) for i in range(0, len(jobs), chunksize)]
    it = pool.imap_unordered(_run_chunk, chunks)        # chunksize 1: the iterator that has next(timeout)
    while True:
        try:
            for r_ in it.next(timeout=idle):
                yield r_
        except StopIteration:
            return
        except mp.TimeoutError:
            for p_ in list(getattr(pool, "_pool", [])):
                try:
                    p_.kill()
                except Exception:  # noqa: BLE001
                    pass
            yield None
            return


LOST = ("C14/ExitStack/unwind-never-returns", {"engine": "exitstack", "spec": "ExitStack", "path": [], "salt": -1,
                                               "expected": "the unwind completes",
                                               "observed": "a replay had to be killed after spinning through the CPU-time guard; its result never arrived"})


def flavour_dependence(seed):
    """C03 for exit callbacks / exit handlers: one history, all five concrete kinds of each entry class.
    A history whose replay fails for some kinds and passes for others depends on the flavour."""
    res = run_tlc("ExitStack", cfg_text(2, 4), outfiles=["edges.ndjson"], timeout=3000)
    paths = build_paths(read_ndjson(res["files"]["edges.ndjson"]), lambda f: f["n"] == 0 and f["nent"] == 0 and f["unw"]["which"] == "none")
    salts = [0, 1, 2, 3, 4, 5, 6, 7]
    jobs = [(p, s_) for p in paths for s_ in salts]
    bad = {}
    hangs = 0
    with mp.Pool(min(16, os.cpu_count() or 4)) as pool:
        for out in results_of(pool, replay_path, jobs, max(1, len(jobs) // 256)):
            if out is None:
                break
            for sig, d in out:
                bad.setdefault(json.dumps(d["path"]), {})[d["salt"]] = (sig, d)
                hangs += sig.endswith("unwind-never-returns")
            if hangs >= 12:
                _STOP.value = 1
    found = []
    for _, per in bad.items():
        if len(per) < len(salts):
            sig, d = sorted(per.items())[0][1]
            kinds = {s_: [concrete(e + 1, "cb", s_) for e in range(2)] + [concrete(e + 1, "exit", s_) for e in range(2)] for s_ in per}
            found.append(("C03/ExitStack/" + sig.split("/", 2)[2] + "-with-some-callback-flavours-only",
                          {**d, "fails_with_salts": sorted(per), "passes_with_salts": [s_ for s_ in salts if s_ not in per], "kinds_by_salt": kinds}))
    return found, len(jobs), {"states": res["distinct"], "transitions": res["generated"]}


TIERS = {"quick": [(2, 5), (3, 4)], "thorough": [(2, 6), (3, 5)]}
# model-checked only (invariants), too many transitions to replay one by one
MC_ONLY = {"quick": [], "thorough": [(3, 6), (4, 5)]}


def check(prop, tier, seed, into=None):
    v = into or Verdict(prop, tier, seed)
    _STOP.value = 0
    label_counts = {}
    tot = {"states": 0, "transitions": 0, "paths": 0, "replays": 0}
    for (maxent, maxops) in TIERS[tier]:
        res = run_tlc("ExitStack", cfg_text(maxent, maxops), outfiles=["edges.ndjson"], timeout=3000)
        tot["states"] += res["distinct"]
        tot["transitions"] += res["generated"]
        edges = read_ndjson(res["files"]["edges.ndjson"])
        for e_ in edges:
            label_counts[e_["a"][0]] = label_counts.get(e_["a"][0], 0) + 1
        paths = build_paths(edges, lambda f: f["n"] == 0 and f["nent"] == 0 and f["unw"]["which"] == "none")
        # only complete operations end a replay: keep paths whose last step closes an operation
        tot["paths"] += len(paths)
        salts = [0, 1, 2, 3, 4, 5] if tier == "quick" else [0, 1, 2, 3, 4, 5, 6, 7]     # entries 1..3 + salts reach all kinds of a class (8 exit kinds, 6 callback kinds)
        jobs = [(p, s) for p in paths for s in salts]
        hangs = 0
        with mp.Pool(min(16, os.cpu_count() or 4)) as pool:
            for out in results_of(pool, replay_path, jobs, max(1, len(jobs) // 256)):
                if out is None:
                    v.violation(*LOST)
                    break
                for sig, d in out:
                    v.violation(sig, d)
                    hangs += sig.endswith("unwind-never-returns")
                if hangs >= 12:      # every further hang costs seconds of guard time and says nothing new
                    _STOP.value = 1
        tot["replays"] += len(jobs)
        if paths:
            v.sample({"history": [e["a"] for e in paths[len(paths) // 2]]})
    for (maxent, maxops) in MC_ONLY[tier]:
        res = run_tlc("ExitStack", cfg_text(maxent, maxops, edges=False), timeout=3000)
        tot["states"] += res["distinct"]
        tot["transitions"] += res["generated"]
    tstats = beyond_bounds(tier, seed, v) if into is None else {}
    v.assumptions += ["entry kinds of one class (exit / callback) behave alike in the spec; the replay rotates the concrete kinds",
                      "twins: the recursively built nested `async with` statements and contextlib.AsyncExitStack (both must agree with the spec on every replay)"]
    vac = dict(label_counts)
    missing = [a for a in ["register", "enterfail", "popall", "leave", "aclose", "exit", "finish"] if not vac.get(a)]
    if missing:
        raise MachineryError(f"vacuity guard: actions never taken in the explored graphs: {missing}")
    return v.finish({
        "states": tot["states"], "transitions": tot["transitions"], "traces_validated_against_impl": tot["replays"],
        "edge_cover_paths": tot["paths"], "exhaustive": True, "vacuity_guard_actions_taken": vac, "random_histories_validated_by_TLC": tstats, "evaluations": tot["replays"], "distinct_nontrivial": tot["paths"],
        "configs": TIERS[tier], "configs_model_checked_only": MC_ONLY[tier], "rule": "one replay per transition of the ExitStack state graph and kind rotation; distinct by construction",
        "checker_cmd": "tlc spec/ExitStack.tla (INVARIANTs NestedEq, Once, OnlyOwner)",
    })
