"""Tee engine (C09; tee clauses of C04, C18, C20).

spec -> code : TLC explores spec/Tee.tla exhaustively and writes every transition; the
               edge cover (shortest path to each edge, the edge, then a drain to
               quiescence) is replayed into the real asyncstdlib.tee with hand-driven
               tasks, comparing the projected state after every step.
code -> spec : the observable events of replays (all that drifted, a sample of the others)
               and of seeded random schedules beyond the exhaustive bounds are validated by
               TLC against spec/TeeObs.tla.
"""
from __future__ import annotations

import gc
import json
import multiprocessing as mp
import os
import random
import weakref
from collections import deque

from . import tm
from .driver import Accounting, Suspend, Task
from .instruments import Cancelled, InjectedBaseError, InjectedError, Item
from .report import Verdict
from .graph import stream_replays
from .tlc import MachineryError, read_ndjson, run_tlc
from .tracecheck import validate

# --------------------------------------------------------------------------- the real system


class NeverReturns(Exception):
    pass


class TeeSys:
    def __init__(self, L, n, srclen, susp, uselock, exitsusp=0, closable=True, census=False, lockclass=False):
        self.L = L
        self.n, self.srclen, self.susp, self.uselock = n, srclen, susp, uselock
        self.exitsusp = exitsusp
        self.closable = closable
        self.fail_next = False
        self.fail_exc = None
        self.acct = Accounting()
        self.trace = []
        self.current = 0
        self.items = [Item(1, p + 1, 1) for p in range(srclen)]
        # one of the items is the object None (nothing may be read into that); it cannot be weakly referenced
        self.none_pos = 2 if srclen >= 2 else 0
        self.refs = [weakref.ref(x) for x in self.items]
        if self.none_pos:
            self.items[self.none_pos - 1] = None
            self.refs[self.none_pos - 1] = lambda: None
        self.pos = 0
        self.inside = set()
        self.src_closes = 0
        self._pending_close = 0
        self.holder = 0
        self.overlap = False
        self.unmodelled = False
        sys_ = self

        class Source:
            def __aiter__(self):
                return self

            async def __anext__(self):
                c = sys_.current
                sys_.ev(e="enter", c=c)
                if sys_.inside:
                    sys_.overlap = True
                sys_.inside.add(c)
                try:
                    for j in range(sys_.susp):
                        await Suspend(sys_.acct, ("src", c, j))
                    if sys_.fail_next:
                        sys_.fail_next = False
                        sys_.fail_exc = (InjectedBaseError if (sys_.srclen + sys_.n) % 2 == 0 else InjectedError)("source failed")
                        raise sys_.fail_exc
                    if sys_.pos >= len(sys_.items):
                        raise StopAsyncIteration
                    sys_.pos += 1
                    sys_.ev(e="fetch", x=sys_.pos, c=c)
                    item = sys_.items[sys_.pos - 1]
                    sys_.items[sys_.pos - 1] = None  # the source keeps no reference
                    return item
                finally:
                    sys_.inside.discard(c)
                    sys_.ev(e="leave", c=c)

        class ClosableSource(Source):
            async def aclose(self):
                sys_.src_closes += 1
                sys_._pending_close += 1

        class Lock:
            def __len__(self):      # a lock that reports its waiters: no waiters, so it is falsy when handed over
                return 0

            h = 0       # who holds THIS lock (sys_.holder mirrors it for the one lock a tee is given)

            async def __aenter__(self):
                c = sys_.current
                while self.h:
                    await Suspend(sys_.acct, ("lock", c))
                    c = sys_.current
                self.h = sys_.holder = c

            async def __aexit__(self, *exc):
                c = sys_.current
                self.h = sys_.holder = 0
                if sys_.exitsusp:
                    await Suspend(sys_.acct, ("lockexit", c))
                return None

        self.source = ClosableSource() if closable else Source()
        self.lock = (Lock if lockclass else Lock()) if uselock else None
        self.tee = L.tee(self.source, n=n, lock=self.lock) if uselock else L.tee(self.source, n=n)
        # children are looked up one by one, each when it is first used (tee[i] is as good as unpacking the handle)
        self._children = {}
        try:
            self.bufs = [weakref.ref(b) for b in self.tee._buffers]  # never keep a buffer alive ourselves
            if len(self.bufs) != n:      # a private detail that is laid out differently: not looked at then
                self.bufs = None
        except (AttributeError, TypeError):
            self.bufs = None
        self.task = {c: None for c in range(1, n + 1)}
        self.cs = {c: "unstarted" for c in range(1, n + 1)}
        self.recv = {c: [] for c in range(1, n + 1)}
        self.ever_started = {c: False for c in range(1, n + 1)}

    # ---- events
    def ev(self, **kw):
        self.trace.append(kw)

    def _flush(self):
        while self._pending_close:
            self._pending_close -= 1
            self.ev(e="srcclose")

    def _after(self, c, r):
        if r[0] == "token":
            tag = getattr(r[1], "tag", None)
            if isinstance(tag, tuple) and tag[0] == "lock":
                self.cs[c] = "lockwait"
            elif isinstance(tag, tuple) and tag[0] == "src":
                self.cs[c] = "insrc"
            elif isinstance(tag, tuple) and tag[0] == "lockexit":
                self.cs[c] = "exiting"
            else:
                self.cs[c] = "foreign"
        elif r[0] == "done":
            v = r[1]
            x = v.p if isinstance(v, Item) else self.none_pos if (v is None and self.none_pos) else -1
            self.recv[c].append(x)
            self.ev(e="recv", c=c, x=x)
            self.cs[c] = "idle"
            self.task[c] = None
        else:
            exc = r[1]
            self.task[c] = None
            if isinstance(exc, StopAsyncIteration):
                self.ev(e="end", c=c)
                self.cs[c] = "done"
            elif isinstance(exc, Cancelled):
                self.ev(e="cancelled", c=c)
                self.cs[c] = "cancelled"
            elif isinstance(exc, (InjectedError, InjectedBaseError)):
                self.ev(e="failed", c=c, same=exc is self.fail_exc)
                self.cs[c] = "failed"
            else:
                self.ev(e="error", c=c, what=type(exc).__name__)
                self.cs[c] = "error"
        self._flush()

    # ---- actions of the model
    def can(self, a, c):
        s = self.cs[c]
        if a == "anext":
            return s in ("unstarted", "idle")
        if a == "grant":
            return s == "lockwait" and not self.holder
        if a == "tick":
            return s == "insrc"
        if a == "exit":
            return s == "exiting"
        if a == "fail":
            return s == "insrc"
        if a == "close":
            return s in ("unstarted", "idle")
        if a == "cancel":
            return s in ("lockwait", "insrc", "exiting")
        return False

    def can_closeall(self):
        return all(s not in ("lockwait", "insrc", "exiting", "foreign") for s in self.cs.values()) and \
            any(s in ("unstarted", "idle") for s in self.cs.values())

    def closeall(self):
        live = [c for c in self.cs if self.cs[c] in ("unstarted", "idle")]
        self.current = 0
        r = self.run_close(self.tee.aclose())
        if r[0] == "raised":
            self.ev(e="error", c=0, what="Tee.aclose:" + type(r[1]).__name__)
        for c in live:
            self.ev(e="closed", c=c, started=self.ever_started[c], via="handle")
            self.cs[c] = "closed"
        self._flush()

    def child(self, c):
        if c not in self._children:
            self._children[c] = self.tee[c - 1]
        return self._children[c]

    def run_close(self, aw):
        """A close that keeps waiting (for a lock somebody else holds, say) never returns: an observation, not a crash."""
        t = Task(aw, self.acct)
        try:
            return t.run(limit=2000)
        except RuntimeError as ex:
            if "does not terminate" not in str(ex):
                raise
            try:
                t.throw(Cancelled("stop"))
            except BaseException:  # noqa: BLE001
                pass
            return ("raised", NeverReturns("the close keeps waiting"))

    def busy(self):
        return [c for c in sorted(self.cs) if self.cs[c] in ("lockwait", "insrc", "exiting", "foreign")]

    def closeall_busy(self):
        """Tee.aclose() while a child is being advanced: Python refuses to close that child."""
        b = self.busy()[0]
        before = [c for c in sorted(self.cs) if c < b and self.cs[c] in ("unstarted", "idle")]
        self.current = 0
        t = Task(self.tee.aclose(), self.acct)
        r = t.step()
        if r[0] == "token":          # the handle waits for something: nothing of the user's is there to wait for
            self.ev(e="error", c=0, what="Tee.aclose:suspends-while-a-child-is-busy")
            t.throw(Cancelled("stop"))
        elif not (r[0] == "raised" and isinstance(r[1], RuntimeError)):
            # No property says what closing the handle does to a child that is being advanced (children built as
            # generators make Python refuse).  Whatever else happens here is outside the model: the replay stops
            # without a verdict on what follows.
            self.unmodelled = True
            return
        for c in before:
            # the sweep of the handle never happens (the RuntimeError comes first): a never-advanced child closed
            # on the way is in the position of one closed on its own (named deviation UnstartedCloseLeaks)
            self.ev(e="closed", c=c, started=self.ever_started[c])
            self.cs[c] = "closed"
        self._flush()

    def apply(self, a, c):
        self.current = c
        if a == "anext":
            self.ever_started[c] = True
            t = Task(self.child(c).__anext__(), self.acct)
            self.task[c] = t
            self._after(c, t.step())
        elif a in ("grant", "tick", "exit"):
            self._after(c, self.task[c].step())
        elif a == "cancel":
            self._after(c, self.task[c].throw(Cancelled("cancel")))
        elif a == "fail":
            self.fail_next = True
            self._after(c, self.task[c].step())
            self.fail_next = False
        elif a == "close":
            started = self.ever_started[c]
            r = self.run_close(self.child(c).aclose())
            if r[0] == "raised":
                self.ev(e="error", c=c, what="aclose:" + type(r[1]).__name__)
                self.cs[c] = "error"
            else:
                self.ev(e="closed", c=c, started=started)
                self.cs[c] = "closed"
            self._flush()
        else:
            raise ValueError(a)

    def project(self):
        p = {"cs": [self.cs[c] for c in range(1, self.n + 1)],
             "recv": [list(self.recv[c]) for c in range(1, self.n + 1)],
             "p": self.pos, "busy": sorted(self.inside), "closed": self.src_closes, "l": self.holder}
        if self.bufs is not None:
            try:
                live = self.tee._buffers
                mine = [r() for r in self.bufs]
                p["reg"] = [m is not None and any(b is m for b in live) for m in mine]
                p["buf"] = [[(x.p if x is not None else self.none_pos) for x in m] if r else [] for m, r in zip(mine, p["reg"])]
                del mine
            except AttributeError:
                pass
        return p

    def census(self):
        gc.collect()
        alive = [i + 1 for i, r in enumerate(self.refs) if r() is not None and self.items[i] is None]
        self.ev(e="census", alive=alive)

    def drain(self, census=False):
        """Finish in-flight operations, run every live consumer to exhaustion, close the rest."""
        guard = 0
        while True:
            guard += 1
            if guard > 10000:
                self.ev(e="error", c=0, what="no-quiescence")
                return
            busy = [c for c in self.cs if self.cs[c] in ("insrc", "lockwait", "exiting", "foreign")]
            prog = False
            for c in busy:
                if self.cs[c] in ("insrc", "exiting", "foreign"):
                    self.current = c
                    self._after(c, self.task[c].step())
                    prog = True
                elif self.cs[c] == "lockwait" and not self.holder:
                    self.current = c
                    self._after(c, self.task[c].step())
                    prog = True
            if busy and not prog:
                self.ev(e="error", c=busy[0], what="deadlock")
                return
            if busy:
                continue
            live = [c for c in self.cs if self.cs[c] in ("unstarted", "idle")]
            if not live:
                break
            for c in live:
                if self.cs[c] in ("unstarted", "idle"):
                    self.apply("anext", c)
                    if census:
                        self.census()
        if census:
            self.census()
        self.ev(e="quiesce")

    def cfg(self):
        return {"n": self.n, "len": self.srclen, "lock": bool(self.uselock), "susp": self.susp, "exitsusp": self.exitsusp,
                "closable": bool(self.closable)}


# --------------------------------------------------------------------------- TLC side

INVS = ["PrefixOrder", "Complete", "FetchOnce", "NoOverlap", "BufExact", "LockFree", "NoStuck"]
DEMAND_INVS = INVS + ["Retention", "CloseOnce"]


HANDLE_SWEEPS = True  # mirrors Tee.aclose() of the code (named deviation, see DESIGN.md / known_findings.json)


def cfg_text(n, srclen, susp, uselock, exitsusp, leaks, edges=True, cancel=True, close=True, invs=INVS, sweeps=None, fail=True, closable=True):
    b = lambda x: "TRUE" if x else "FALSE"  # noqa: E731
    out = f"""CONSTANTS
  NChild = {n}
  SrcLen = {srclen}
  Susp = {susp}
  UseLock = {b(uselock)}
  ExitSusp = {exitsusp}
  AllowCancel = {b(cancel)}
  AllowFail = {b(fail)}
  Closable = {b(closable)}
  AllowClose = {b(close)}
  UnstartedCloseLeaks = {b(leaks)}
  HandleSweeps = {b(HANDLE_SWEEPS if sweeps is None else sweeps)}
  EdgeFile = "{'@OUT:edges.ndjson@' if edges else ''}"
INIT Init
NEXT Next
VIEW View
CHECK_DEADLOCK FALSE
"""
    out += "\n".join(f"INVARIANT {i}" for i in invs) + "\n"
    if edges:
        out += "ACTION_CONSTRAINT EmitEdge\n"
    return out


REPLAY_CAP = 20000

TIERS = {
    # (NChild, SrcLen, Susp, UseLock)
    # (NChild, SrcLen, Susp, UseLock, ExitSusp)
    # ... Closable)
    "mini": [(2, 2, 1, True, 0, True), (2, 2, 1, True, 1, True), (2, 2, 1, True, 0, False), (3, 2, 0, False, 0, True)],   # when run on behalf of another property
    "quick": [(2, 2, 1, True, 0, True), (3, 2, 1, True, 0, True), (2, 2, 1, True, 1, True), (2, 2, 1, True, 0, False),
              (3, 1, 0, True, 1, True), (2, 2, 0, False, 0, True), (3, 2, 0, False, 0, True)],
    "thorough": [(3, 3, 1, True, 0, True), (3, 2, 2, True, 1, True), (3, 3, 2, True, 0, True), (2, 4, 2, True, 1, True),
                 (3, 2, 1, True, 0, False), (3, 3, 0, False, 0, True), (4, 2, 0, False, 0, True), (4, 3, 0, False, 0, True),
                 (3, 3, 0, True, 1, True)],
}


def key(st):
    return json.dumps(st, sort_keys=True)


def norm_model(t):
    """Model projection in the shape of TeeSys.project()."""
    out = {"cs": ["exiting" if x in ("exitstop", "exitcancel", "exitfail") else x for x in t["cs"]], "recv": [list(x) for x in t["recv"]], "p": t["p"], "busy": sorted(t["busy"]),
           "closed": t["closed"], "l": t["l"]}
    return out


def build_paths(edges):
    """BFS tree over the emitted graph: return list of paths (each a list of edges) covering every edge."""
    succ = {}
    init = None
    for e in edges:
        k = key(e["f"])
        succ.setdefault(k, []).append(e)
        if init is None and all(c == "unstarted" for c in e["f"]["cs"]) and e["f"]["p"] == 0 and e["f"]["closed"] == 0:
            init = k
    if init is None:
        raise MachineryError("no initial state among edges")
    parent = {init: None}
    order = deque([init])
    while order:
        u = order.popleft()
        for e in succ.get(u, []):
            v = key(e["t"])
            if v not in parent:
                parent[v] = (u, e)
                order.append(v)
    paths = []
    for u, es in succ.items():
        if u not in parent:
            continue
        pre = []
        x = u
        while parent[x] is not None:
            x, e = parent[x]
            pre.append(e)
        pre.reverse()
        for e in es:
            paths.append(pre + [e])
    return paths


def replay_path(args):
    (n, srclen, susp, uselock, exitsusp, closable), path, census = args
    L = tm.load_lib()
    sysm = TeeSys(L, n, srclen, susp, uselock, exitsusp, closable)
    drift = None
    for j, e in enumerate(path):
        a, c = e["a"][0], e["a"][1]
        if a == "closeallbusy":
            if not sysm.busy() or sysm.busy()[0] != c:
                drift = {"step": j, "label": [a, c], "why": "not enabled in the implementation", "observed": sysm.project()}
                break
            sysm.closeall_busy()
            if sysm.unmodelled:
                drift = {"step": j, "label": [a, c], "why": "Tee.aclose() on a busy child did not raise RuntimeError: outside the model"}
                break
            got = sysm.project()
            exp = norm_model(e["t"])
            bad = [k for k in exp if got.get(k) != exp[k]]
            if bad:
                drift = {"step": j, "label": [a, c], "fields": bad, "expected": {k: exp[k] for k in bad},
                         "observed": {k: got.get(k) for k in bad}}
                break
            continue
        if a == "closeall":
            if not sysm.can_closeall():
                drift = {"step": j, "label": [a, c], "why": "not enabled in the implementation", "observed": sysm.project()}
                break
            sysm.closeall()
            got = sysm.project()
            exp = norm_model(e["t"])
            bad = [k for k in exp if got.get(k) != exp[k]]
            if bad:
                drift = {"step": j, "label": [a, c], "fields": bad, "expected": {k: exp[k] for k in bad},
                         "observed": {k: got.get(k) for k in bad}}
                break
            continue
        if not sysm.can(a, c):
            drift = {"step": j, "label": [a, c], "why": "not enabled in the implementation", "observed": sysm.project()}
            break
        sysm.apply(a, c)
        got = sysm.project()
        exp = norm_model(e["t"])
        bad = [k for k in exp if got.get(k) != exp[k]]
        if not bad and "buf" in got and "buf" in e["t"]:
            mreg = [cs_ not in ("done", "closed", "cancelled") or len(b) > 0 for cs_, b in zip(e["t"]["cs"], e["t"]["buf"])]
            for i in range(n):
                if got["reg"][i] and list(e["t"]["buf"][i]) != got["buf"][i]:
                    bad.append("buf")
                    break
            del mreg
        if bad:
            drift = {"step": j, "label": [a, c], "fields": bad, "expected": {k: exp.get(k, e["t"].get(k)) for k in bad},
                     "observed": {k: got.get(k) for k in bad}}
            break
    if not sysm.unmodelled:
        if census:
            sysm.census()
        sysm.drain(census=census)
    return {"cfg": sysm.cfg(), "ev": sysm.trace, "drift": drift, "path": [e["a"] for e in path],
            "acct_ok": sysm.acct.ok(), "overlap": sysm.overlap}


def random_run(args):
    """A seeded random schedule on constants beyond the exhaustive bounds."""
    seed, n, srclen, susp, uselock, exitsusp, closable = args[:7]
    lockclass = len(args) > 7 and args[7] and uselock
    rnd = random.Random(seed)
    L = tm.load_lib()
    if lockclass:
        # The lock given as a CLASS.  The library refuses that (it is not a lock: TypeError at the first item); one that
        # accepts it owes the same exclusion -- one consumer inside the source at a time -- as with a lock object.
        probe = TeeSys(L, 1, 1, 0, True, 0, closable, lockclass=True)
        try:
            probe.apply("anext", 1)
            refused = any(e.get("e") == "error" for e in probe.trace)
        except Exception:  # noqa: BLE001
            refused = True
        if refused:
            return None
    sysm = TeeSys(L, n, srclen, susp, uselock, exitsusp, closable, lockclass=lockclass)
    failed = False
    steps = []
    for _ in range(rnd.randint(5, 12 * n + 4 * srclen)):
        opts = []
        for c in range(1, n + 1):
            for a, w in (("anext", 6), ("grant", 6), ("tick", 8), ("exit", 8), ("close", 1), ("cancel", 1)):
                if sysm.can(a, c):
                    opts += [(a, c)] * w
        if not opts:
            break
        if sysm.can_closeall() and rnd.random() < 0.03:
            sysm.closeall()
            steps.append(["closeall", 0])
            continue
        if sysm.busy() and rnd.random() < 0.02:
            steps.append(["closeallbusy", sysm.busy()[0]])
            sysm.closeall_busy()
            if sysm.unmodelled:
                return {"cfg": sysm.cfg(), "ev": sysm.trace, "drift": None, "path": steps, "acct_ok": sysm.acct.ok(),
                        "overlap": sysm.overlap, "seed": seed}
            continue
        a, c = rnd.choice(opts)
        if a == "tick" and not failed and rnd.random() < 0.04:
            a, failed = "fail", True
        sysm.apply(a, c)
        steps.append([a, c])
        if rnd.random() < 0.15:
            sysm.census()
    sysm.drain(census=rnd.random() < 0.3)
    return {"cfg": sysm.cfg(), "ev": sysm.trace, "drift": None, "path": steps, "acct_ok": sysm.acct.ok(),
            "overlap": sysm.overlap, "seed": seed}


def signature(prop, tr, matched):
    ev = tr["ev"]
    bad = ev[matched] if matched < len(ev) else {"e": "?"}
    what = bad["e"]
    if what == "error":
        what = "error-" + str(bad.get("what"))
    unstarted = any(e["e"] == "closed" and not e.get("started", True) and e.get("via") != "handle" for e in ev[: matched + 1])
    handle = any(e["e"] == "closed" and not e.get("started", True) and e.get("via") == "handle" for e in ev[: matched + 1])
    cancelled = any(e["e"] == "cancelled" for e in ev[: matched + 1])
    closed = any(e["e"] == "closed" and e.get("started", True) for e in ev[: matched + 1])
    ctx = "+unstarted-close" if unstarted else "+handle-close-of-unstarted" if handle else ("+after-cancel" if cancelled else ("+after-close" if closed else ""))
    return f"{prop}/tee/{what}-rejected{ctx}"


def check(prop, tier, seed, into=None):
    v = into or Verdict(prop, tier, seed)
    label_counts = {}
    L = tm.load_lib()
    del L
    tot = {"states": 0, "transitions": 0, "edges": 0, "paths": 0, "drift": 0, "drift_benign": 0,
           "validated": 0, "random_traces": 0, "demand_model_states": 0}
    rnd = random.Random(seed)
    alltraces = []
    for (n, srclen, susp, uselock, exitsusp, closable) in TIERS[tier]:
        # 1. the code-shaped model (UnstartedCloseLeaks = TRUE) with the invariants it can satisfy
        res = run_tlc("Tee", cfg_text(n, srclen, susp, uselock, exitsusp, True, closable=closable), outfiles=["edges.ndjson"], timeout=3000)
        tot["states"] += res["distinct"]
        tot["transitions"] += res["generated"]
        edges = read_ndjson(res["files"]["edges.ndjson"])
        for e_ in edges:
            label_counts[e_["a"][0]] = label_counts.get(e_["a"][0], 0) + 1
        tot["edges"] += len(edges)
        # 2. the demanded design (UnstartedCloseLeaks = FALSE) satisfies every sentence of C09
        res2 = run_tlc("Tee", cfg_text(n, srclen, susp, uselock, exitsusp, False, edges=False, invs=DEMAND_INVS, sweeps=True, closable=closable), timeout=3000)
        tot["demand_model_states"] += res2["distinct"]
        paths = build_paths(edges)
        tot["paths"] += len(paths)
        # the largest configurations are model-checked in full but replayed on an evenly spaced part of their edge cover
        # (every k-th path in BFS order, at most REPLAY_CAP per configuration): a full replay of all nine thorough
        # configurations took an hour and a half on 16 idle cores
        if len(paths) > REPLAY_CAP:
            k_ = -(-len(paths) // REPLAY_CAP)
            off_ = seed % k_
            tot["paths_not_replayed"] = tot.get("paths_not_replayed", 0) + len(paths) - len(paths[off_::k_])
            paths = paths[off_::k_]
        jobs = [((n, srclen, susp, uselock, exitsusp, closable), p, False) for p in paths]
        del edges, paths
        cap = 1000 if tier == "mini" else 3000 if tier == "quick" else 20000
        with mp.Pool(min(16, os.cpu_count() or 4)) as pool:
            drifted, sample, bad, _nclean = stream_replays(pool, replay_path, jobs, rnd, cap)
        del jobs
        tot["drift"] += len(drifted)
        alltraces += drifted + sample
        for b in bad:
            v.violation(f"{prop}/tee/foreign-suspension", {"engine": "tee", **b})
    if tier == "thorough":   # four children with lock and a suspending source: model checking only (0.9 M transitions)
        big = run_tlc("Tee", cfg_text(4, 2, 1, True, 0, True, edges=False), timeout=3000)
        tot["states"] += big["distinct"]
        tot["transitions"] += big["generated"]
    # 3. negative control: outside the premise (no lock, suspending source) the model must fail
    neg = run_tlc("Tee", cfg_text(3, 2, 1, False, 0, False, edges=False, invs=["Complete"]), expect_violation=True, timeout=600)
    if neg["ok"]:
        raise MachineryError("vacuity guard: Tee without lock and with a suspending source satisfies Complete")
    if prop == "C09":
        from . import checks_tm as _ctm  # noqa: PLC0415
        want_, got_ = _ctm.tee_over_list(tm.load_lib())
        if want_ != got_:
            v.violation("C09/tee/children-over-an-edited-list-see-different-items", {"engine": "scenario", "expected": want_, "observed": got_})
    # 4. random schedules beyond the exhaustive bounds
    nrand = 300 if tier == "mini" else 1500 if tier == "quick" else 20000
    rjobs = []
    for i in range(nrand):
        n = rnd.choice([2, 3, 4, 5])
        uselock = rnd.random() < 0.7
        rjobs.append((seed * 1000003 + i, n, rnd.randint(0, 8), rnd.choice([0, 1, 2, 3]) if uselock else 0, uselock,
                      rnd.choice([0, 1]) if uselock else 0, rnd.random() < 0.8, i % 20 == 7))
    with mp.Pool(min(16, os.cpu_count() or 4)) as pool:
        rres = [r for r in pool.map(random_run, rjobs, chunksize=64) if r is not None]
    tot["random_traces"] = len(rres)
    alltraces += rres
    # the same object under a real event loop: asyncio tasks, asyncio.Lock, Task.cancel()
    from . import eng_aio  # noqa: PLC0415
    aio = eng_aio.traces_for("tee", tier, seed)
    alltraces += aio
    # 5. TLC judges the recorded traces against the observable spec
    rejected, st = validate("TeeObs", [{"cfg": t["cfg"], "ev": t["ev"]} for t in alltraces])
    tot["validated"] = st["traces"]
    for idx, matched in sorted(rejected.items()):
        tr = alltraces[idx]
        v.violation(signature(prop, tr, matched),
                    {"engine": "tee", "mode": "graph" if "seed" not in tr else ("asyncio" if tr["path"][:1] == ["asyncio"] else "random"), "spec": "TeeObs",
                     "cfg": tr["cfg"], "path": tr["path"], "step": matched,
                     "matched_prefix": tr["ev"][max(0, matched - 6): matched], "rejected_event": tr["ev"][matched] if matched < len(tr["ev"]) else None,
                     "drift": tr.get("drift")})
    tot["drift_benign"] = sum(1 for i, t in enumerate(alltraces) if t.get("drift") and i not in rejected)
    for t in alltraces[:2] + rres[:2]:
        v.sample({"cfg": t["cfg"], "path": t["path"][:14], "events": t["ev"][:10]})
    v.assumptions += [
        "cancellation scenarios use a class-based source whose __anext__ is cancellation-safe (a cancelled pull consumes nothing)",
        "premise of C09 enforced by the driver: a lock is supplied whenever the source suspends",
        "retention census allows, per child, the item its generator frame fetched last (CPython frame lifetime)",
        "edge-cover conformance is sound only for the projected state (cs, recv, source position, busy set, close count, lock holder, and tee._buffers when present)",
    ]
    vac = dict(label_counts)
    missing = [a for a in ["anext", "grant", "tick", "close", "cancel", "closeall", "closeallbusy", "fail"] if not vac.get(a)]
    if missing:
        raise MachineryError(f"vacuity guard: actions never taken in the explored graphs: {missing}")
    return v.finish({
        "states": tot["states"], "transitions": tot["transitions"],
        "traces_validated_against_impl": tot["validated"] + tot["paths"] - tot.get("paths_not_replayed", 0),
        "edge_cover_paths": tot["paths"], "edge_cover_paths_replayed": tot["paths"] - tot.get("paths_not_replayed", 0),
        "edges": tot["edges"], "drifted_replays": tot["drift"],
        "drift_benign": tot["drift_benign"], "random_schedule_traces": tot["random_traces"], "asyncio_loop_traces": len(aio),
        "traces_validated_by_TLC_against_TeeObs": tot["validated"], "trace_validation": st,
        "demand_model_states": tot["demand_model_states"],
        "configs": [list(c) for c in TIERS[tier]], "exhaustive": not tot.get("paths_not_replayed"), "vacuity_guard_actions_taken": vac,
        "evaluations": tot["paths"] - tot.get("paths_not_replayed", 0) + tot["random_traces"], "distinct_nontrivial": tot["paths"] - tot.get("paths_not_replayed", 0),
        "rule": "one replay per transition of the Tee state graph (shortest path + edge + drain); every path is distinct by construction"
                + (f"; configurations with more than {REPLAY_CAP} transitions are model-checked in full and replayed on every k-th path" if tot.get("paths_not_replayed") else ""),
        "checker_cmd": "tlc -config <generated> spec/Tee.tla ; tlc -workers 1 spec/TeeObs.tla (TRACE_FILE=...)",
    })
