"""Instrumented arguments: items, sources, callables -- async and sync twins.

All events go to one per-run ``Recorder`` (single thread, so the list order is the
order).  The event vocabulary is the one of spec/ToolMachine.tla.
"""
from __future__ import annotations

import functools

from .driver import Accounting, suspend


class Recorder:
    def __init__(self):
        self.log = []
        self.acct = Accounting()
        # fault plan: ("pull", src, ordinal) | ("call", f, ordinal) | None
        self.fault = None
        self.fault_exc = None
        self.fault_fired = False
        self.uses_after_fault = 0
        self.counts = {}
        self.mutations = []  # descriptions of in-place mutations of argument objects
        self.invoked = {}    # calls of user callables counted at call time (flavours whose result is awaited later)
        # cancellation plan: throw at the n-th suspension token overall
        self.susp = 0  # suspensions per async use

    def ev(self, **kw):
        self.log.append(kw)

    def use(self, kind, who):
        """Count a use; tell whether the planned fault hits it."""
        if self.fault_fired:
            self.uses_after_fault += 1
        key = (kind, who)
        n = self.counts.get(key, 0) + 1
        self.counts[key] = n
        if self.fault is not None and not self.fault_fired and self.fault == (kind, who, n):
            self.fault_fired = True
            return True
        return False


# where in-place operations on argument objects are reported (set by the run that owns the objects)
MUTATION_SINK = []


def set_mutation_sink(lst):
    global MUTATION_SINK
    MUTATION_SINK = lst


class InjectedError(Exception):
    """The exception kind a failing source or callable raises (falsy: an exception is one whatever its truth value)."""

    def __bool__(self):
        return False


class InjectedTypeError(TypeError):
    pass


class InjectedBaseError(BaseException):
    """A failure that is no Exception (raised BY user code, not thrown in): it propagates and is cleaned up after like any other."""

    def __bool__(self):
        return False


class Cancelled(BaseException):
    """What the driver throws into a suspended operation (cancellation)."""

    def __bool__(self):
        return False


# --------------------------------------------------------------------------- values


class Item:
    """``k`` is what comparisons, hashing and truth tests see; (s, p) is the identity."""

    __slots__ = ("s", "p", "k", "__weakref__")

    def __init__(self, s, p, k):
        self.s, self.p, self.k = s, p, k

    def __repr__(self):
        return f"I{self.s}.{self.p}k{self.k}"

    def _ok(self, other):
        if isinstance(other, Item) and (self.k == 9 or other.k == 9):
            raise TypeError("unorderable item")        # k = 9: every ordering comparison fails
        return other.k if isinstance(other, Item) else NotImplemented

    def __lt__(self, o):
        k = self._ok(o)
        return k if k is NotImplemented else self.k < k

    def __gt__(self, o):
        k = self._ok(o)
        return k if k is NotImplemented else self.k > k

    def __le__(self, o):
        k = self._ok(o)
        return k if k is NotImplemented else self.k <= k

    def __ge__(self, o):
        k = self._ok(o)
        return k if k is NotImplemented else self.k >= k

    def __eq__(self, o):
        if self.k == 7:          # k = 7: equality is not reflexive (like NaN)
            return False
        return self.k == o.k if isinstance(o, Item) else NotImplemented

    def __ne__(self, o):
        if self.k == 7:
            return True
        return self.k != o.k if isinstance(o, Item) else NotImplemented

    def __hash__(self):
        if self.k == 8:
            raise TypeError("unhashable item")          # k = 8
        return hash(("item", self.k))

    def __bool__(self):
        return self.k != 0

    def __add__(self, o):
        return Node("add", (self, o))

    def __radd__(self, o):
        return Node("add", (o, self))

    def __iadd__(self, o):      # an item is the caller's object: adding in place would change it
        MUTATION_SINK.append("item.__iadd__")
        return Node("add", (self, o))


PERMISSIVE = ("__await__", "__aiter__", "__anext__", "aclose", "send", "throw", "cr_await")


def _not_really(*a, **k):
    raise TypeError("looked up through __getattr__: not really there")


class PInt(int):
    """An int (a key, a count) that answers hasattr() for everything, see Node.__getattr__."""

    def __getattr__(self, name):
        if name in PERMISSIVE:
            return _not_really
        raise AttributeError(name)


class Node:
    """Free constructor: the result of a user function / of ``+``."""

    __slots__ = ("f", "a", "rec", "__weakref__")

    def __init__(self, f, a=(), rec=None):
        self.f, self.a, self.rec = f, tuple(a), rec

    def __repr__(self):
        return f"{self.f}{self.a}"

    def __getattr__(self, name):
        # a result object that answers hasattr() for everything (a proxy / record with a permissive __getattr__): what
        # `await`, `async for` and the like accept is decided by the TYPE, so this is no awaitable and no iterator
        if name in PERMISSIVE:
            return _not_really
        raise AttributeError(name)

    def __add__(self, o):
        return Node("add", (self, o))

    def __radd__(self, o):
        return Node("add", (o, self))

    def __iadd__(self, o):
        # also for partial sums: they are what the user's own __add__ returned, objects of the user's type, and the
        # standard library never adds to them in place (a type may well be more lenient there than with "+")
        MUTATION_SINK.append(f"{self.f}.__iadd__")
        return Node("add", (self, o))

    def __eq__(self, o):
        return isinstance(o, Node) and self.f == o.f and self.a == o.a

    def __hash__(self):
        return hash((self.f, self.a))


class StartObj(Node):
    """A ``start`` argument that notices in-place addition."""

    __slots__ = ()

    def __iadd__(self, o):
        self.rec.mutations.append("start.__iadd__")
        return Node("add", (self, o))


def jsonify(v):
    """Project a Python value onto the JSON shape ToJson gives the spec's values."""
    if isinstance(v, Item):
        return {"s": v.s, "p": v.p, "k": v.k}
    if isinstance(v, Node):
        return {"f": v.f, "a": [jsonify(x) for x in v.a]}
    if type(v).__name__ == "Aw":
        return {"f": "awaitable-result", "a": [jsonify(v.value)]}
    if isinstance(v, (bool, str)) or v is None:
        return v
    if isinstance(v, int):
        return v
    if isinstance(v, (tuple, list)):
        return [jsonify(x) for x in v]
    if isinstance(v, (set, frozenset)):
        return sorted((jsonify(x) for x in v), key=lambda d: (d["s"], d["p"]))
    if isinstance(v, dict):
        return [{"x": jsonify(k), "last": jsonify(val)} for k, val in v.items()]
    return {"py": type(v).__name__, "repr": repr(v)[:60]}


# --------------------------------------------------------------------------- sources

FLAVOURS_ITER = ("cls", "agen", "clsnoclose", "list", "seq", "iter")


class _ClsBase:
    """Class-based async iterator; survives a thrown exception."""

    def __init__(self, rec: Recorder, idx, items):
        self.rec, self.idx, self.items = rec, idx, items
        self.pos = 0
        self.state = "new"
        self.closes = 0
        self.busy = 0

    def __aiter__(self):
        return self

    async def __anext__(self):
        rec = self.rec
        self.busy += 1
        try:
            await suspend(rec.acct, ("src", self.idx), rec.susp)
            hit = rec.use("pull", self.idx)
            if hit:
                self.state = "failed"
                rec.ev(ev="pull", src=self.idx, res="raise")
                raise rec.fault_exc
            if self.state == "closed":
                rec.ev(ev="pull", src=self.idx, res="stop")
                raise StopAsyncIteration
            if self.pos >= len(self.items):
                self.state = "exhausted"
                rec.ev(ev="pull", src=self.idx, res="stop")
                raise StopAsyncIteration
            self.pos += 1
            self.state = "open"
            rec.ev(ev="pull", src=self.idx, res="item")
            return self.items[self.pos - 1]
        finally:
            self.busy -= 1


class ClsSource(_ClsBase):
    """... with aclose"""

    async def aclose(self):
        self.closes += 1
        if self.state not in ("exhausted",):
            self.state = "closed"
        # closing is asynchronous: it may suspend (after the fact, so that a cancellation landing
        # here leaves the source closed) -- a close that is only triggered by garbage collection
        # cannot complete then
        await suspend(self.rec.acct, ("aclose", self.idx), self.rec.susp)

    @property
    def released(self):
        return self.state in ("exhausted", "closed")


class ClsSourceTruthyClose(ClsSource):
    """... whose aclose() returns a truthy value, which is falsy itself (a lazily loaded page that has no length yet)
    and which compares equal to every other iterator of its kind (nothing may be read into any of that: an iterator
    is told from another by identity, and is iterated whatever its truth value)"""

    async def aclose(self):
        await super().aclose()
        return True

    def __bool__(self):
        return False

    def __eq__(self, other):
        return isinstance(other, ClsSourceTruthyClose)

    def __hash__(self):
        return 7


class CloseFailure(Exception):
    """What a source raises from aclose() in the `clsraiseclose` flavour."""


class ClsSourceRaisingClose(ClsSource):
    """... whose aclose() fails (after the source has released what it held): the others are closed all the same"""

    async def aclose(self):
        await super().aclose()
        raise CloseFailure(f"source {self.idx}")


class ClsSourceLazy(ClsSource):
    """... that is only ready once __aiter__ has been called on it (an iterator may do its set-up there): whoever
    iterates it has to go through the protocol, even though it is its own iterator"""

    def __init__(self, rec, idx, items):
        super().__init__(rec, idx, items)
        self.ready = False

    def __aiter__(self):
        self.ready = True
        return self

    async def __anext__(self):
        if not self.ready:
            raise RuntimeError("__anext__ before __aiter__: the iterator was not set up")
        return await super().__anext__()


class ClsSourceDelegating:
    """An asynchronous iterator that hands everything but the iteration protocol on to the object it wraps -- its
    `aclose` exists, but only through __getattr__ (a static look at the class does not find it)."""

    def __init__(self, inner):
        self._inner = inner

    def __aiter__(self):
        return self

    def __anext__(self):
        return self._inner.__anext__()

    def __getattr__(self, name):
        return getattr(self._inner, name)


class ClsSourceNoClose(_ClsBase):
    """... without aclose: nothing to release"""

    released = True


class AgenSource:
    """Async-generator source; a thrown exception finishes it (Python's own rule)."""

    def __init__(self, rec: Recorder, idx, items):
        self.rec, self.idx, self.items = rec, idx, items
        self.pos = 0
        self.state = "new"
        self.closes = 0
        self.gen = self._gen()

    async def _gen(self):
        rec = self.rec
        try:
            while True:
                await suspend(rec.acct, ("src", self.idx), rec.susp)
                hit = rec.use("pull", self.idx)
                if hit:
                    self.state = "failed"
                    rec.ev(ev="pull", src=self.idx, res="raise")
                    raise rec.fault_exc
                if self.pos >= len(self.items):
                    self.state = "exhausted"
                    rec.ev(ev="pull", src=self.idx, res="stop")
                    return
                self.pos += 1
                self.state = "open"
                rec.ev(ev="pull", src=self.idx, res="item")
                yield self.items[self.pos - 1]
        finally:
            if self.state not in ("exhausted", "failed"):
                self.closes += 1  # ended from outside: aclose() (or a thrown exception)
                self.state = "closed"

    @property
    def released(self):
        # finished (exhausted / raised / closed) or never started and closed
        g = self.gen
        return g.ag_frame is None or self.state in ("exhausted", "closed", "failed")


class SyncIterSource:
    """Synchronous logging iterator (also the stdlib twin's source)."""

    def __init__(self, rec: Recorder, idx, items):
        self.rec, self.idx, self.items = rec, idx, items
        self.pos = 0
        self.state = "new"

    def __iter__(self):
        return self

    def __next__(self):
        rec = self.rec
        hit = rec.use("pull", self.idx)
        if hit:
            self.state = "failed"
            rec.ev(ev="pull", src=self.idx, res="raise")
            raise rec.fault_exc
        if self.pos >= len(self.items):
            self.state = "exhausted"
            rec.ev(ev="pull", src=self.idx, res="stop")
            raise StopIteration
        self.pos += 1
        self.state = "open"
        rec.ev(ev="pull", src=self.idx, res="item")
        it = self.items[self.pos - 1]
        return it.make() if isinstance(it, LazyAw) else it

    released = True


class LazyAw:
    """An awaitable that is only made when the iterable of awaitables is asked for it, and kept by nobody (like the
    coroutines of a generator expression): once awaited and dropped, its memory -- and its id() -- is free for the next.
    gen: a generator-based coroutine (types.coroutine) instead of an object with __await__: `await` takes those too,
    although they are no instances of collections.abc.Awaitable.  All awaitables of one iterable are of one kind, so
    that each is followed by one of its own size (which is what gets the memory of the one dropped before)."""

    def __init__(self, rec, value, gen=False):
        self.rec, self.value, self.gen = rec, value, gen

    def make(self):
        if not self.gen:
            # Deliberately hand out an object that sits where an earlier (dead) one of this iterable sat, when the
            # allocator will give that place away: same id(), different awaitable.  Candidates that landed elsewhere
            # are held until the search is over, so that the allocator moves on to the freed place.
            seen = self.rec.__dict__.setdefault("lazy_ids", set())
            cand, extras = Aw(self.rec, self.value), []
            while seen and id(cand) not in seen and len(extras) < 200:
                extras.append(cand)
                cand = Aw(self.rec, self.value)
            if id(cand) not in seen and extras:
                cand = extras[0]
            seen.add(id(cand))
            return cand
        import types  # noqa: PLC0415
        rec, value = self.rec, self.value

        @types.coroutine
        def gen_based():
            return (yield from Aw(rec, value).__await__())

        return gen_based()


class SeqSource:
    """Sequence protocol only (__getitem__ with 0..), logs like an iterator."""

    def __init__(self, rec, idx, items):
        self.rec, self.idx, self.items = rec, idx, items
        self.state = "new"

    def __getitem__(self, j):
        rec = self.rec
        hit = rec.use("pull", self.idx)
        if hit:
            rec.ev(ev="pull", src=self.idx, res="raise")
            raise rec.fault_exc
        if j >= len(self.items):
            rec.ev(ev="pull", src=self.idx, res="stop")
            raise IndexError(j)
        rec.ev(ev="pull", src=self.idx, res="item")
        return self.items[j]

    released = True


class ListSource(list):
    """A real list subclass: pulls are invisible (only results are compared)."""

    released = True
    state = "n/a"


def make_source(flavour, rec, idx, items):
    """Return (object to pass to the tool, handle exposing .released/.state)."""
    if flavour == "cls":
        s = ClsSource(rec, idx, items)
        return s, s
    if flavour == "clslazy":
        s = ClsSourceLazy(rec, idx, items)
        return s, s
    if flavour == "clsgetattr":
        s = ClsSource(rec, idx, items)
        return ClsSourceDelegating(s), s
    if flavour == "clsraiseclose":
        s = ClsSourceRaisingClose(rec, idx, items)
        return s, s
    if flavour == "clstruthy":
        s = ClsSourceTruthyClose(rec, idx, items)
        return s, s
    if flavour == "clsnoclose":
        s = ClsSourceNoClose(rec, idx, items)
        return s, s
    if flavour == "agen":
        s = AgenSource(rec, idx, items)
        return s.gen, s
    if flavour == "iter":
        s = SyncIterSource(rec, idx, items)
        return s, s
    if flavour == "seq":
        s = SeqSource(rec, idx, items)
        return s, s
    if flavour == "list":
        s = ListSource(items)
        return s, s
    raise ValueError(flavour)


ASYNC_ITER_FLAVOURS = ("cls", "agen")  # flavours that own something to release

# --------------------------------------------------------------------------- callables

FLAVOURS_CALL = ("asyncdef", "def", "partial", "obj", "aw", "cls", "objfalsy", "defwraps", "clsnew")
FLAVOURS_SYNC_ONLY = ("mixed", "mixed2")   # for asynctools.sync: calls of one function differ in kind


def _semantics(rec, name):
    """The total function the spec fixes for user callable ``name``."""
    if name == "pred":
        return lambda x: x.k == 0     # deliberately not the item's own truth value (that is what predicate None means)
    if name == "key":
        return lambda x: PInt(x.k)
    if name == "key2":
        return lambda x: PInt(x.k // 2)
    return lambda *a: Node(name, a)


def _jsonargs(a):
    return [jsonify(x) for x in a]


def make_callable(flavour, rec: Recorder, name, sem=None):
    sem = sem or _semantics(rec, name)

    def body(*a):
        hit = rec.use("call", name)
        if hit:
            rec.ev(ev="call", f=name, a=_jsonargs(a), res="raise")
            raise rec.fault_exc
        rec.ev(ev="call", f=name, a=_jsonargs(a), res="ret")
        return sem(*a)

    if flavour == "def":
        def f(*a):
            return body(*a)

        return f

    def invoked():
        """Counted when the callable is *called* (the event is logged when its result is awaited)."""
        rec.invoked[name] = rec.invoked.get(name, 0) + 1

    async def af(*a):
        await suspend(rec.acct, ("call", name), rec.susp)
        return body(*a)

    if flavour == "clsnew":
        # a class used as a plain function: calling it computes the result in __new__ and hands that back; that its
        # instances would have an `async def __call__` says nothing about calling the class
        class Factory:
            def __new__(cls, *a):
                return body(*a)

            async def __call__(self, *a):
                raise AssertionError("instances are never made, let alone called")

        return Factory
    if flavour == "defwraps":
        # a plain function that *wraps* a coroutine function (functools.wraps sets __wrapped__) but computes
        # its result synchronously: what counts is what the call returns, not what it wraps
        def fw(*a):
            return body(*a)

        async def inner(*a):
            raise AssertionError("the wrapped coroutine function is never to be called")
        fw.__wrapped__ = inner
        return fw
    if flavour == "asyncdef":
        return af
    if flavour == "partial":
        async def af2(_extra, *a):
            await suspend(rec.acct, ("call", name), rec.susp)
            return body(*a)

        return functools.partial(af2, None)
    if flavour == "aw":
        class Awaitable_:      # an awaitable that is no coroutine (like a Future)
            def __init__(self, coro):
                self.coro = coro

            def __await__(self):
                return self.coro.__await__()

        def faw(*a):
            invoked()
            return Awaitable_(af(*a))

        return faw
    if flavour in ("mixed", "mixed2"):
        state = {"n": 0}

        def fmixed(*a):
            state["n"] += 1
            plain = (state["n"] % 2 == 1) == (flavour == "mixed")
            return body(*a) if plain else af(*a)

        return fmixed
    if flavour == "cls":
        class AwaitableCall:   # calling the class makes an awaitable instance
            def __init__(self, *a):
                invoked()
                self.a = a

            def __await__(self):
                return af(*self.a).__await__()

        return AwaitableCall
    if flavour in ("obj", "objfalsy"):
        class CallObj:
            def __call__(self, *a):
                invoked()
                return af(*a)

            def __bool__(self):         # e.g. a rule set that is callable and, being empty, falsy
                return flavour == "obj"

        if flavour == "objfalsy":       # ... and, being mutable and comparable, unhashable (a non-frozen dataclass with __call__)
            CallObj.__eq__ = lambda self, other: type(other) is type(self)
            CallObj.__hash__ = None
        return CallObj()
    raise ValueError(flavour)


class AwIterable:
    """An awaitable that is iterable as well, like asyncio.Future (whose __iter__ is its __await__): to be awaited."""

    def __init__(self, aw):
        self.aw = aw

    def __await__(self):
        return self.aw.__await__()

    __iter__ = __await__


class Aw:
    """A user awaitable wrapping a value: logs when it is awaited (C19)."""

    # (slots with padding: an object of an unusual size, so that the place of a dropped one is not taken at once by the
    #  interpreter's everyday small objects -- see LazyAw.make)
    __slots__ = ("rec", "value", "label", "hashable", "__weakref__") + tuple(f"_pad{i}" for i in range(24))

    def __init__(self, rec: Recorder, value, label=None):
        self.rec, self.value, self.label = rec, value, label
        rec.naw = getattr(rec, "naw", 0) + 1
        self.hashable = rec.naw % 3 != 0

    # awaitables are told apart by identity only: these all compare equal (like two requests with the same
    # fields) and every third one cannot be hashed at all
    def __eq__(self, other):
        return isinstance(other, Aw)

    def __hash__(self):
        if not self.hashable:
            raise TypeError("unhashable awaitable")
        return 7

    def __await__(self):
        rec = self.rec
        yield from suspend(rec.acct, ("aw",), rec.susp).__await__()
        x = jsonify(self.label if self.label is not None else self.value)
        if rec.use("await", "aw"):
            rec.ev(ev="await", x=x, res="raise")
            raise rec.fault_exc
        rec.ev(ev="await", x=x, res="ret")
        return self.value
