"""Entry point: ./check <ID> [--tier quick|thorough] [--replay PATH]"""
from __future__ import annotations

import argparse
import json
import os
import sys
import traceback

from .tlc import MachineryError

TM_PROPS = {"C01", "C02", "C04", "C05", "C06", "C19"}


def dispatch(prop, tier, seed):
    if prop in TM_PROPS:
        from . import checks_tm
        return checks_tm.check(prop, tier, seed)
    if prop == "C10":
        from . import eng_lru
        return eng_lru.check(prop, tier, seed)
    if prop == "C11":
        from . import eng_lruconc
        return eng_lruconc.check(prop, tier, seed)
    if prop == "C12":
        from . import eng_cprop
        return eng_cprop.check(prop, tier, seed)
    if prop == "C16":
        from . import eng_groupby
        return eng_groupby.check(prop, tier, seed)
    if prop == "C13":
        from . import eng_ctx
        return eng_ctx.check(prop, tier, seed)
    if prop == "C14":
        from . import eng_exitstack
        return eng_exitstack.check(prop, tier, seed)
    if prop == "C15":
        from . import eng_decor
        return eng_decor.check(prop, tier, seed)
    if prop in ("C07", "C08"):
        from . import eng_handles
        return eng_handles.check(prop, tier, seed)
    if prop in ("C03", "C17", "C18", "C20"):
        from . import checks_cross
        return checks_cross.check(prop, tier, seed)
    if prop == "C09":
        from . import eng_tee
        return eng_tee.check(prop, tier, seed)
    if prop == "X01":    # extra coverage (no listed property): closing / nullcontext
        from . import eng_simplecm
        return eng_simplecm.check(prop, tier, seed)
    raise MachineryError(f"no check registered for {prop}")


def main(argv=None):
    ap = argparse.ArgumentParser()
    ap.add_argument("prop")
    ap.add_argument("--tier", default=os.environ.get("VERIF_TIER", "quick"), choices=["quick", "thorough"])
    ap.add_argument("--replay")
    a = ap.parse_args(argv)
    seed = int(os.environ.get("VERIF_SEED", "0") or 0)
    # last resort against a check that never returns (a worker lost, a subprocess stuck): far above any
    # normal running time, and reported as a failure of the machinery, never as a verdict
    import signal  # noqa: PLC0415

    def _overdue(signum, frame):
        print(f"MACHINERY-ERROR property={a.prop}: the check did not finish within its wall-clock budget", file=sys.stderr)
        sys.stderr.flush()
        try:
            os.killpg(os.getpgid(0), signal.SIGTERM) if os.getpgid(0) == os.getpid() else None
        finally:
            os._exit(2)

    signal.signal(signal.SIGALRM, _overdue)
    signal.alarm(int(os.environ.get("VERIF_BUDGET_S", "3600" if a.tier == "quick" else "14400")))
    if a.replay:
        from . import replay
        return replay.run(a.prop, a.replay)
    try:
        return dispatch(a.prop, a.tier, seed)
    except MachineryError as e:
        print(f"MACHINERY-ERROR property={a.prop}: {e}", file=sys.stderr)
        return 2
    except Exception:  # noqa: BLE001
        traceback.print_exc()
        print(f"MACHINERY-ERROR property={a.prop}: unexpected exception", file=sys.stderr)
        return 2


if __name__ == "__main__":
    sys.exit(main())
