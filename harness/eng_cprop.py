"""CachedProp engine (C12): cached_property histories and schedules.

spec -> code : every transition of spec/CachedProp.tla replayed into the real descriptor
               (slot, task states, values, lock holders compared per step, then drained).
code -> spec : observable events of drifted replays, a sample of the others and random
               schedules validated by TLC against spec/CPropObs.tla.
"""
from __future__ import annotations

import multiprocessing as mp
import os
import random

from . import tm
from .driver import Accounting, Suspend, Task
from .graph import build_paths, stream_replays
from .instruments import Cancelled, InjectedBaseError, InjectedError
from .report import Verdict
from .tlc import MachineryError, read_ndjson, run_tlc
from .tracecheck import validate


class InjectedKeyError(KeyError):
    pass


class InjectedAttributeError(AttributeError):
    pass


FAIL_KINDS = (InjectedError, InjectedKeyError, InjectedAttributeError, InjectedBaseError)


class Broken(Exception):
    """Taking the attribute failed: the rest of the history cannot be played (the event is in the trace)."""


class CPSys:
    def __init__(self, L, ntask, ninst, uselock, gsusp, failkind=0, exitsusp=0):
        self.ntask, self.ninst, self.uselock, self.gsusp = ntask, ninst, uselock, gsusp
        self.acct = Accounting()
        self.trace = []
        self.current = 0
        self.runs = 0
        self.fail_task = 0
        self.fail_exc = {}
        self.thrown = {}
        self.fail_cls = FAIL_KINDS[failkind % len(FAIL_KINDS)]
        self.exitsusp = exitsusp
        self.locks = []  # in creation order = placeholder order
        self.ph_ids = {}  # id(placeholder) -> model id, in order of discovery
        self.ph_keep = []
        sys_ = self

        class TLock:
            def __init__(self):
                self.holder = 0
                sys_.locks.append(self)
                self.lid = len(sys_.locks)

            async def __aenter__(self):
                while self.holder:
                    await Suspend(sys_.acct, ("lock", self.lid))
                self.holder = sys_.current

            async def __aexit__(self, *exc):
                self.holder = 0
                if sys_.exitsusp:
                    await Suspend(sys_.acct, ("lockexit", self.lid))

        async def getter(inst):
            t = sys_.current
            sys_.runs += 1
            r = sys_.runs
            sys_.ev(e="gstart", r=r, i=inst.idx, t=t)
            ok = False
            try:
                for j in range(sys_.gsusp):
                    await Suspend(sys_.acct, ("getter", t, j))
                if sys_.fail_task and sys_.fail_task == sys_.current == t:
                    sys_.fail_task = 0
                    sys_.fail_exc[t] = sys_.fail_cls("getter failed")
                    raise sys_.fail_exc[t]
                ok = True
                return ("val", r)
            finally:
                sys_.ev(e="gend", r=r, ok=ok)

        deco = L.cached_property(TLock) if uselock else L.cached_property

        class Mixin:               # the property is defined on a mixin that has no instance dictionary of its own ...
            __slots__ = ()
            attr = deco(getter)

        class ResBase(Mixin):      # ... and used through ordinary classes that do have one
            def __init__(self, idx):
                object.__setattr__(self, "idx", idx)

            def __setattr__(self, name, value):     # like a frozen dataclass: caching must not go through setattr
                raise AttributeError(f"cannot assign to field {name!r}")

        class Res(ResBase):        # the property is inherited: instances are of a subclass of the class that defines it
            def __len__(self):     # an instance that is falsy (an empty container, say) is an instance all the same
                return 0

        self.insts = {i: Res(i) for i in range(1, ninst + 1)}
        self.task = {t: None for t in range(1, ntask + 1)}
        self.pc = {t: "idle" for t in range(1, ntask + 1)}
        self.obj = {t: None for t in range(1, ntask + 1)}
        self.oinst = {t: 0 for t in range(1, ntask + 1)}
        self.got = {t: 0 for t in range(1, ntask + 1)}
        self.tph = {t: 0 for t in range(1, ntask + 1)}

    def ev(self, **kw):
        self.trace.append(kw)

    # -- placeholders are numbered in creation order
    def _scan(self):
        for i in sorted(self.insts):
            o = self.insts[i].__dict__.get("attr")
            if o is not None and not self._is_value(o) and id(o) not in self.ph_ids:
                lid = getattr(getattr(o, "_lock", None), "lid", None)  # one lock per placeholder, same order
                self.ph_ids[id(o)] = lid if lid is not None else len(self.ph_ids) + 1
                self.ph_keep.append(o)

    @staticmethod
    def _is_value(o):
        return type(o).__name__ == "AwaitableValue"

    def _enc(self, o):
        if o is None:
            return ["absent", 0]
        if self._is_value(o):
            v = o.value
            return ["val", v[1] if isinstance(v, tuple) else -1]
        return ["ph", self.ph_ids.get(id(o), -1)]

    def slot(self, i):
        return self._enc(self.insts[i].__dict__.get("attr"))

    def _after(self, t, r, thrown=None):
        self._scan()
        if r[0] == "token":
            tag = getattr(r[1], "tag", ("?",))
            if tag[0] == "lock":
                self.pc[t] = "lockwait"
                self.tph[t] = tag[1]
            elif tag[0] == "lockexit":
                self.pc[t] = "exiting"
            elif tag[0] == "getter":
                self.pc[t] = "ingetter"
                # the lock held by t (if any) tells which placeholder's getter runs
                held = [lk.lid for lk in self.locks if lk.holder == t]
                self.tph[t] = held[0] if held else self.tph[t]
            else:
                self.pc[t] = "foreign"
            return
        i = self.oinst[t]
        self.task[t] = None
        self.pc[t] = "idle"
        self.obj[t] = None
        self.tph[t] = 0
        if r[0] == "done":
            self.thrown.pop(t, None)
            v = r[1]
            vid = v[1] if isinstance(v, tuple) and len(v) == 2 and v[0] == "val" else -1
            self.got[t] = vid
            self.ev(e="got", t=t, i=i, v=vid)
        else:
            self.got[t] = 0
            exc = r[1]
            pending = self.thrown.pop(t, None)
            expected = thrown if thrown is not None else pending if pending is not None else self.fail_exc.get(t)
            self.ev(e="err", t=t, same=exc is expected, what=type(exc).__name__)

    def can(self, a, t):
        return {"access": self.pc[t] == "idle", "await": self.pc[t] == "holding",
                "grant": self.pc[t] == "lockwait" and not self._lock_held(self.tph[t]),
                "tick": self.pc[t] == "ingetter", "fail": self.pc[t] == "ingetter", "exit": self.pc[t] == "exiting",
                "cancel": self.pc[t] in ("ingetter", "lockwait", "exiting")}.get(a, True)

    def _lock_held(self, lid):
        return 0 < lid <= len(self.locks) and self.locks[lid - 1].holder != 0

    def apply(self, a, t, i=0):
        self.current = t
        if a == "access":
            try:
                o = self.insts[i].attr
                o.__await__      # noqa: B018 -- what the attribute gives must be awaitable
            except Exception as ex:  # noqa: BLE001 -- an attribute that cannot be taken: an event no behaviour of the spec has
                self.ev(e="access-fails", t=t, i=i, what=type(ex).__name__)
                self.broken = True
                raise Broken() from None
            self._scan()
            self.obj[t], self.oinst[t] = o, i
            self.pc[t] = "holding"
            self.ev(e="access", t=t, i=i)
        elif a == "await":
            task = Task(self.obj[t].__await__(), self.acct)
            self.task[t] = task
            self._after(t, task.step())
        elif a in ("grant", "tick", "exit"):
            self._after(t, self.task[t].step())
        elif a == "fail":
            self.fail_task = t
            self._after(t, self.task[t].step())
            self.fail_task = 0
        elif a == "cancel":
            exc = Cancelled("cancel")
            self.thrown[t] = exc          # it may only come out after a suspending lock release
            self._after(t, self.task[t].throw(exc), thrown=exc)
        elif a == "del":
            try:
                del self.insts[i].attr
                self.ev(e="del", i=i)
            except AttributeError:
                self.ev(e="delerror", i=i)
        else:
            raise ValueError(a)

    def project(self):
        self._scan()
        lk = {}
        for lock in self.locks:
            lk[lock.lid] = lock.holder
        return {"slot": [self.slot(i) for i in sorted(self.insts)],
                "pc": [self.pc[t] for t in sorted(self.pc)],
                "got": [self.got[t] for t in sorted(self.got)],
                "runs": self.runs, "lk": lk}

    broken = False

    def drain(self, probe=True):
        if self.broken:
            return
        try:
            self._drain(probe)
        except Broken:
            pass

    def _drain(self, probe=True):
        guard = 0
        while True:
            guard += 1
            if guard > 2000:
                self.ev(e="stuck")
                return
            prog = False
            for t in sorted(self.pc):
                if self.pc[t] in ("ingetter", "foreign"):
                    self.apply("tick", t)
                    prog = True
                elif self.pc[t] == "exiting":
                    self.apply("exit", t)
                    prog = True
                elif self.pc[t] == "lockwait" and self.can("grant", t):
                    self.apply("grant", t)
                    prog = True
                elif self.pc[t] == "holding":
                    self.apply("await", t)
                    prog = True
            if not prog:
                break
        held = sum(1 for lk in self.locks if lk.holder)
        slots = []
        for i in sorted(self.insts):
            s = self.slot(i)
            slots.append(s[1] if s[0] == "val" else 0)
        self.ev(e="quiesce", held=held, slots=slots, stuck=[t for t in self.pc if self.pc[t] != "idle"])
        if probe and all(self.pc[t] == "idle" for t in self.pc):
            # afterwards the attribute keeps working: one more sequential access of every instance is served
            # from what is cached (or computed once if nothing is) -- judged by CPropObs like everything else
            for i in sorted(self.insts):
                self.apply("access", 1, i)
                self.drain(probe=False)

    def cfg(self):
        return {"tasks": self.ntask, "insts": self.ninst, "lock": bool(self.uselock), "gsusp": self.gsusp, "exitsusp": bool(self.exitsusp)}


def cfg_text(ntask, ninst, uselock, gsusp, maxdel, opsper, faults, exitsusp=0, edges=True):
    b = lambda x: "TRUE" if x else "FALSE"  # noqa: E731
    return f"""CONSTANTS
  NTask = {ntask}
  NInst = {ninst}
  UseLock = {b(uselock)}
  GSusp = {gsusp}
  MaxDel = {maxdel}
  OpsPer = {opsper}
  AllowFail = {b(faults)}
  AllowCancel = {b(faults)}
  ExitSusp = {exitsusp}
  EdgeFile = "{'@OUT:edges.ndjson@' if edges else ''}"
INIT Init
NEXT Next
VIEW View
CHECK_DEADLOCK FALSE
INVARIANT OneGetterPerPlaceholder
INVARIANT OneGetterPerInstance
INVARIANT AtMostOnce
INVARIANT GotGenuine
INVARIANT LockFreeAtRest
INVARIANT LockHolder
INVARIANT NoStuck
""" + ("ACTION_CONSTRAINT EmitEdge\n" if edges else "")


# (NTask, NInst, UseLock, GSusp, MaxDel, OpsPer, faults)
TIERS = {
    # (NTask, NInst, UseLock, GSusp, MaxDel, OpsPer, faults[, ExitSusp])
    "mini": [(2, 1, True, 1, 1, 1, True), (2, 1, False, 1, 1, 2, True)],
    "quick": [(1, 2, True, 0, 2, 4, False), (1, 1, False, 0, 2, 5, False), (2, 1, True, 1, 1, 1, True), (3, 1, True, 1, 0, 1, False),
              (2, 1, False, 1, 1, 2, True), (2, 2, True, 1, 0, 2, True), (1, 1, True, 1, 1, 3, True), (2, 1, True, 1, 1, 1, True, 1), (3, 1, True, 0, 0, 1, False, 1)],
    "thorough": [(1, 2, True, 0, 3, 5, False), (1, 2, False, 0, 3, 5, False), (3, 1, True, 2, 1, 1, True), (3, 1, False, 1, 1, 1, True),
                 (4, 1, True, 1, 0, 1, True), (2, 2, True, 2, 1, 2, True), (3, 2, True, 1, 1, 1, True), (2, 1, True, 1, 2, 3, True),
                 (2, 1, False, 2, 1, 2, True), (3, 1, True, 1, 1, 2, True), (3, 1, True, 1, 1, 1, True, 1), (2, 2, True, 1, 0, 2, True, 1)],
}


def norm(t, sysm):
    lk = {}
    known = len(sysm.locks)
    for j, h in enumerate(t["lk"], start=1):
        if j <= known:
            lk[j] = h
    return {"slot": [list(x) for x in t["slot"]], "pc": ["exiting" if x in ("exitfollow", "exitabort") else x for x in t["pc"]],
            "got": list(t["got"]), "runs": t["runs"], "lk": lk}


def replay_path(args):
    (ntask, ninst, uselock, gsusp, _md, _ops, _f), path = args[0][:7], args[1]
    exitsusp = args[0][7] if len(args[0]) > 7 else 0
    L = tm.load_lib()
    s = CPSys(L, ntask, ninst, uselock, gsusp, failkind=len(path), exitsusp=exitsusp)
    drift = None
    for j, e in enumerate(path):
        a, t, i = e["a"]
        if a != "del" and not s.can(a, t):
            drift = {"step": j, "label": e["a"], "why": "not enabled in the implementation"}
            break
        try:
            s.apply(a, t, i)
        except Broken:
            drift = {"step": j, "label": e["a"], "why": "taking the attribute failed"}
            break
        got = s.project()
        exp = norm(e["t"], s)
        if not uselock:
            exp["lk"] = got["lk"] = {}
            # without a lock type placeholders cannot be told apart from outside: ignore their numbers
            exp["slot"] = [[x[0], 0] if x[0] == "ph" else x for x in exp["slot"]]
            got["slot"] = [[x[0], 0] if x[0] == "ph" else x for x in got["slot"]]
        if got != exp:
            bad = [x for x in exp if got[x] != exp[x]]
            drift = {"step": j, "label": e["a"], "fields": bad, "expected": {x: exp[x] for x in bad}, "observed": {x: got[x] for x in bad}}
            break
    s.drain()
    return {"cfg": s.cfg(), "ev": s.trace, "drift": drift, "path": [e["a"] for e in path], "acct_ok": s.acct.ok()}


def random_run(args):
    seed, ntask, ninst, uselock, gsusp = args
    rnd = random.Random(seed)
    L = tm.load_lib()
    s = CPSys(L, ntask, ninst, uselock, gsusp, failkind=seed, exitsusp=seed % 2 if uselock else 0)
    steps = []
    for _ in range(rnd.randint(6, 16 * ntask)):
        if s.broken:
            break
        if rnd.random() < 0.06:
            i = rnd.randint(1, ninst)
            if "attr" in s.insts[i].__dict__:
                s.apply("del", 0, i)
                steps.append(["del", 0, i])
            continue
        t = rnd.randint(1, ntask)
        pc = s.pc[t]
        if pc == "idle":
            i = rnd.randint(1, ninst)
            try:
                s.apply("access", t, i)
            except Broken:
                pass
            steps.append(["access", t, i])
        elif pc == "holding":
            if rnd.random() < 0.8:
                s.apply("await", t)
                steps.append(["await", t, 0])
        elif pc == "lockwait":
            if s.can("grant", t):
                s.apply("grant", t)
                steps.append(["grant", t, 0])
            elif rnd.random() < 0.1:
                s.apply("cancel", t)
                steps.append(["cancel", t, 0])
        elif pc == "exiting":
            s.apply("exit", t)
            steps.append(["exit", t, 0])
        elif pc == "ingetter":
            a = rnd.choices(["tick", "fail", "cancel"], [12, 1, 1])[0]
            s.apply(a, t)
            steps.append([a, t, 0])
    s.drain()
    return {"cfg": s.cfg(), "ev": s.trace, "drift": None, "path": steps, "acct_ok": s.acct.ok(), "seed": seed}


def signature(tr, matched):
    ev = tr["ev"]
    bad = ev[matched] if matched < len(ev) else {"e": "?"}
    what = bad["e"]
    pre = ev[:matched]
    ctx = ""
    if any(e["e"] == "del" for e in pre):
        ctx = "+after-del"
    elif any(e["e"] == "err" for e in pre):
        ctx = "+after-failed-or-cancelled"
    if what == "gstart":
        what = "getter-reran"
    if what == "quiesce" and bad.get("held"):
        what = "lock-left-held"
    return f"C12/cached_property/{what}-rejected{ctx}" + ("+lock" if tr["cfg"]["lock"] else "+nolock")


def other_forms(L):
    """Two ways of attaching the descriptor that functools refuses: after the class was created (no __set_name__), and
    under two names.  Refusing them is fine; a library that accepts them owes the same behaviour there: the getter runs
    once per instance until the attribute is deleted, whichever name is used."""
    out = []
    runs = {"n": 0}

    async def getter(self):
        runs["n"] += 1
        return ("val", runs["n"])

    def go(aw):
        r = Task(aw, Accounting()).run()
        return r

    # (1) attached after the class exists
    class Late:
        pass

    try:
        Late.value = L.cached_property(getter)
        inst = Late()
        r1 = go(_await(lambda: inst.value))
        accepted = r1[0] == "done"
    except TypeError:
        accepted = False
    if accepted:
        r2 = go(_await(lambda: inst.value))
        if runs["n"] != 1 or r2 != r1:
            out.append(("C12/cached_property/getter-reran+attached-after-class-creation",
                        {"engine": "scenario", "expected": "one getter run, the same value twice", "observed": {"runs": runs["n"], "first": repr(r1), "second": repr(r2)}}))
    # (2) one descriptor under two names
    runs["n"] = 0
    try:
        desc = L.cached_property(getter)
        Two = type("Two", (), {"x": desc, "y": desc})
        inst = Two()
        r1 = go(_await(lambda: inst.x))
        accepted = r1[0] == "done"
    except (TypeError, RuntimeError):
        accepted = False
    if accepted:
        r2 = go(_await(lambda: inst.y))
        r3 = go(_await(lambda: inst.x))
        if runs["n"] != 1 or not (r1 == r2 == r3):
            out.append(("C12/cached_property/getter-reran+one-descriptor-two-names",
                        {"engine": "scenario", "expected": "one getter run, one value", "observed": {"runs": runs["n"], "values": [repr(r1), repr(r2), repr(r3)]}}))
    # (3) a subclass overrides the property and builds on the inherited one (`await super().value`): each getter runs
    #     once, the subclass's value is what stays cached (functools.cached_property: the same)
    order = []

    class Base:
        @L.cached_property
        async def value(self):
            order.append("base")
            return 1

    class Child(Base):
        @L.cached_property
        async def value(self):
            order.append("child")
            return (await super().value) + 1

    inst = Child()
    r1 = go(_await(lambda: inst.value))
    r2 = go(_await(lambda: inst.value))
    if (r1, r2, order) != (("done", 2), ("done", 2), ["child", "base"]):
        out.append(("C12/cached_property/overriding-property-that-awaits-the-inherited-one",
                    {"engine": "scenario", "expected": {"values": [2, 2], "getter_runs": ["child", "base"]},
                     "observed": {"values": [repr(r1)[:80], repr(r2)[:80]], "getter_runs": order}}))
    # (4) the instance dictionary is replaced as a whole (a reset) while a computation is outstanding: the value goes
    #     where the instance's attributes are NOW, and is served from there afterwards
    runs["n"] = 0

    class Resettable:
        @L.cached_property
        async def value(self):
            runs["n"] += 1
            return ("val", runs["n"])

    inst = Resettable()
    pending = inst.value
    inst.__dict__ = {}
    r1 = go(_await(lambda: pending))
    r2 = go(_await(lambda: inst.value))
    if runs["n"] != 1 or r1 != r2 or r1[0] != "done":
        out.append(("C12/cached_property/value-lost-when-the-instance-dict-was-replaced",
                    {"engine": "scenario", "expected": "one getter run, the value served afterwards", "observed": {"runs": runs["n"], "values": [repr(r1)[:80], repr(r2)[:80]]}}))
    return out


async def _await(take):
    return await take()


def check(prop, tier, seed, into=None):
    v = into or Verdict(prop, tier, seed)
    label_counts = {}
    rnd = random.Random(seed)
    tot = {"states": 0, "transitions": 0, "paths": 0, "drift": 0}
    alltraces = []
    for cfg in TIERS[tier]:
        res = run_tlc("CachedProp", cfg_text(*cfg), outfiles=["edges.ndjson"], timeout=3000)
        tot["states"] += res["distinct"]
        tot["transitions"] += res["generated"]
        edges = read_ndjson(res["files"]["edges.ndjson"])
        for e_ in edges:
            label_counts[e_["a"][0]] = label_counts.get(e_["a"][0], 0) + 1
        paths = build_paths(edges, lambda f: f["runs"] == 0 and f["nph"] == 0 and f["dels"] == 0 and all(x == "idle" for x in f["pc"]) and all(x == cfg[5] for x in f["left"]))
        tot["paths"] += len(paths)
        cap = 800 if tier == "mini" else 2000 if tier == "quick" else 20000
        jobs = [(cfg, p) for p in paths]
        del edges, paths
        with mp.Pool(min(16, os.cpu_count() or 4)) as pool:
            drifted, sample, bad, _n = stream_replays(pool, replay_path, jobs, rnd, cap)
        del jobs
        tot["drift"] += len(drifted)
        alltraces += drifted + sample
        for b in bad:
            v.violation("C12/cached_property/foreign-suspension", {"engine": "cprop", **b})
    nrand = 300 if tier == "mini" else 1500 if tier == "quick" else 20000
    jobs = [(seed * 15485863 + i, rnd.choice([1, 2, 3, 4, 5]), rnd.choice([1, 2, 3]), rnd.random() < 0.6, rnd.choice([0, 1, 2, 3])) for i in range(nrand)]
    with mp.Pool(min(16, os.cpu_count() or 4)) as pool:
        rres = pool.map(random_run, jobs, chunksize=64)
    alltraces += rres
    # the same object under a real event loop: asyncio tasks, asyncio.Lock, Task.cancel()
    from . import eng_aio  # noqa: PLC0415
    aio = eng_aio.traces_for("cprop", tier, seed)
    alltraces += aio
    rejected, st = validate("CPropObs", [{"cfg": t["cfg"], "ev": t["ev"]} for t in alltraces])
    for idx, matched in sorted(rejected.items()):
        tr = alltraces[idx]
        v.violation(signature(tr, matched),
                    {"engine": "cprop", "mode": ("asyncio" if tr["path"][:1] == ["asyncio"] else "random") if "seed" in tr else "graph", "spec": "CPropObs", "cfg": tr["cfg"], "path": tr["path"],
                     "step": matched, "matched_prefix": tr["ev"][max(0, matched - 6): matched],
                     "rejected_event": tr["ev"][matched] if matched < len(tr["ev"]) else None, "drift": tr.get("drift")})
    benign = sum(1 for i, t in enumerate(alltraces) if t.get("drift") and i not in rejected)
    for sig, d in other_forms(tm.load_lib()):
        v.violation(sig, d)
    for t in alltraces[:2] + rres[:2]:
        v.sample({"cfg": t["cfg"], "path": t["path"][:12], "events": t["ev"][:8]})
    v.assumptions += ["the lock type is the instrumented lock of the harness (one instance per placeholder, waiters resume only when it is free; with ExitSusp its release suspends once)",
                      "placeholders are identified by creation order (= creation order of their locks)"]
    vac = dict(label_counts)
    missing = [a for a in ["access", "await", "grant", "tick", "fail", "cancel", "del"] if not vac.get(a)]
    if missing:
        raise MachineryError(f"vacuity guard: actions never taken in the explored graphs: {missing}")
    return v.finish({
        "states": tot["states"], "transitions": tot["transitions"],
        "traces_validated_against_impl": st["traces"] + tot["paths"], "edge_cover_paths": tot["paths"],
        "drifted_replays": tot["drift"], "drift_benign": benign, "random_schedule_traces": len(rres), "asyncio_loop_traces": len(aio),
        "traces_validated_by_TLC_against_CPropObs": st["traces"], "trace_validation": st,
        "configs": [list(c) for c in TIERS[tier]], "exhaustive": True, "vacuity_guard_actions_taken": vac,
        "evaluations": tot["paths"] + len(rres), "distinct_nontrivial": tot["paths"],
        "rule": "one replay per transition of the CachedProp state graph (shortest path + edge + drain)",
        "checker_cmd": "tlc spec/CachedProp.tla ; tlc -workers 1 spec/CPropObs.tla (TRACE_FILE=...)",
    })
