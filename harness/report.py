"""Verdicts, replay files, known findings and evidence files."""
from __future__ import annotations

import hashlib
import json
import os
import sys
import time

ROOT = os.path.dirname(os.path.dirname(os.path.abspath(__file__)))
_ALT = os.environ.get("VERIF_REPO", "/repo") != "/repo"  # runs against a scratch copy never touch the real evidence
EVIDENCE = os.environ.get("VERIF_EVIDENCE_DIR") or os.path.join(ROOT, "build/alt-evidence" if _ALT else "evidence")
REPLAYS = os.path.join(ROOT, "build/alt-replays" if _ALT else "replays")
KNOWN = os.path.join(ROOT, "known_findings.json")


def load_known():
    if not os.path.exists(KNOWN):
        return []
    return json.load(open(KNOWN))


class Verdict:
    """Collects what one check run found and writes evidence + exit code."""

    def __init__(self, prop, tier, seed, level="model_checking"):
        self.prop, self.tier, self.seed, self.level = prop, tier, seed, level
        self.t0 = time.time()
        self.violations = []  # unlisted
        self.known_hits = {}  # signature -> (entry, count, first example)
        self.coverage = {}
        self.assumptions = []
        self.samples = []
        self.notes = []
        self.known = [k for k in load_known() if k.get("property") == prop]
        d = os.path.join(REPLAYS, prop)  # replay files of earlier runs are stale
        if os.path.isdir(d):
            for f in os.listdir(d):
                os.unlink(os.path.join(d, f))
        self.sig_seen = {}

    # -- findings ---------------------------------------------------------
    def violation(self, signature, detail):
        """Report a property-level violation with a stable signature."""
        for k in self.known:
            if k.get("status") == "open" and k["match"].get("signature") == signature:
                hit = self.known_hits.setdefault(signature, [k, 0, detail])
                hit[1] += 1
                return
        n = self.sig_seen.get(signature, 0)
        self.sig_seen[signature] = n + 1
        if n < 3:  # keep at most three replay files per signature
            self.violations.append((signature, detail))

    def add_counts(self, **kw):
        for k, v in kw.items():
            self.coverage[k] = self.coverage.get(k, 0) + v

    def sample(self, s, cap=6):
        if len(self.samples) < cap:
            self.samples.append(s)

    # -- output -----------------------------------------------------------
    def finish(self, extra_coverage=None):
        os.makedirs(EVIDENCE, exist_ok=True)
        cov = dict(self.coverage)
        cov.update(extra_coverage or {})
        cov.setdefault("samples", self.samples or ["(none)"])
        cov["violation_signatures"] = sorted(self.sig_seen)
        cov["known_findings_hit"] = {s: h[1] for s, h in self.known_hits.items()}
        nviol = sum(self.sig_seen.values())
        ev = {
            "property_id": self.prop,
            "tier": self.tier,
            "seed": self.seed,
            "level": self.level,
            "coverage": cov,
            "assumptions": self.assumptions,
            "wall_s": round(time.time() - self.t0, 2),
            "violations": nviol,
        }
        if self.notes:
            ev["coverage"]["notes"] = self.notes
        extra = self.prop.startswith("X")     # coverage beyond the listed properties: own directory, own wording
        evdir = os.path.join(ROOT, "build/alt-evidence" if _ALT else "extra_evidence") if extra else EVIDENCE
        os.makedirs(evdir, exist_ok=True)
        path = os.path.join(evdir, f"{self.prop}.json")
        with open(path + ".tmp", "w") as f:
            json.dump(ev, f, indent=1, default=str)
        os.replace(path + ".tmp", path)
        for sig, (entry, count, _ex) in sorted(self.known_hits.items()):
            print(f"KNOWN-FINDING: property={self.prop} {entry.get('what', sig)} [{sig}; {count} case(s)]")
        for sig, detail in self.violations:
            d = os.path.join(REPLAYS, self.prop)
            os.makedirs(d, exist_ok=True)
            body = {"property": self.prop, "signature": sig, "seed": self.seed, **detail}
            name = hashlib.sha256(json.dumps(body, sort_keys=True, default=str).encode()).hexdigest()[:16]
            rp = os.path.join(d, name + ".json")
            json.dump(body, open(rp, "w"), indent=1, default=str)
            print(f"{'EXTRA-FINDING check' if extra else 'VIOLATION property'}={self.prop} replay={rp}")
            print(f"  signature={sig} total_cases_with_signature={self.sig_seen[sig]}")
        sys.stdout.flush()
        return 1 if self.violations else 0


class SubVerdict:
    """Lets a cross-cutting check (C17, C18, C20, C04...) run another engine and keep only the
    violations that concern it: ``mapper(signature)`` returns the signature under the parent's
    property, or None to drop it (that finding belongs to the engine's own property)."""

    def __init__(self, parent: Verdict, mapper, label):
        self.parent, self.mapper, self.label = parent, mapper, label
        self.assumptions = []
        self.coverage_out = None

    def violation(self, signature, detail):
        new = self.mapper(signature, detail)
        if new:
            self.parent.violation(new, {"via_engine": self.label, "engine_signature": signature, **detail})

    def sample(self, s, cap=6):
        pass

    def add_counts(self, **kw):
        pass

    def finish(self, extra_coverage=None):
        self.coverage_out = extra_coverage or {}
        return 0
