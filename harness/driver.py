"""Hand-driven coroutines: the event loop of the verification harness.

A library coroutine can only suspend inside an awaitable *we* supplied.  Such an
awaitable yields a ``Token`` and checks the reply it gets back.  ``Task.step`` resumes a
coroutine until its next token -- the same grain as one action of the TLA+ specs.

Everything the driver sees that was not minted by an instrument is recorded as a
*foreign suspension* (property C17).
"""
from __future__ import annotations

import itertools
import sys


# Event loops install asynchronous-generator hooks: a generator that is garbage collected
# while suspended is not closed on the spot (that cannot await anything) but handed to the
# loop, which closes it *later*.  The harness does the same: finalisation is deferred until
# `drain_asyncgens` -- after the lifecycles a property talks about have been observed.
PENDING_ASYNCGENS = []


def _finalizer(agen):
    PENDING_ASYNCGENS.append(agen)


sys.set_asyncgen_hooks(firstiter=None, finalizer=_finalizer)


def drain_asyncgens(acct=None):
    """Close the async generators the garbage collector handed over (like loop.shutdown_asyncgens)."""
    n = 0
    while PENDING_ASYNCGENS:
        agen = PENDING_ASYNCGENS.pop()
        n += 1
        try:
            Task(agen.aclose(), acct or Accounting()).run()
        except BaseException:  # noqa: BLE001
            pass
    return n


class Token:
    """What an instrumented awaitable yields to the loop."""

    __slots__ = ("tag", "uid")
    _ids = itertools.count(1)

    def __init__(self, tag):
        self.tag = tag
        self.uid = next(Token._ids)

    def __repr__(self):
        return f"<tok {self.tag} #{self.uid}>"


class Accounting:
    """Per-run bookkeeping of the suspension protocol (C17)."""

    def __init__(self):
        self.minted = []  # tokens minted by instruments, in order
        self.seen = []  # tokens received by the driver, in order
        self.foreign = []  # things received by the driver that are no Token of ours
        self.bad_reply = []  # (token, expected, got) noticed inside an instrument
        self.sent = []  # (token uid, reply) sent by the driver
        self.got = []  # (token uid, reply) received by instruments

    def ok(self):
        return (
            not self.foreign
            and not self.bad_reply
            and [t.uid for t in self.minted] == [t.uid for t in self.seen]
            and self.sent == self.got
        )

    def describe(self):
        return {
            "minted": len(self.minted),
            "seen": len(self.seen),
            "foreign": [repr(f)[:80] for f in self.foreign[:3]],
            "bad_reply": [repr(b)[:120] for b in self.bad_reply[:3]],
            "sent_eq_got": self.sent == self.got,
        }


class Suspend:
    """Awaitable that suspends exactly once with a fresh token and checks the reply."""

    __slots__ = ("acct", "tag")

    def __init__(self, acct: Accounting, tag):
        self.acct = acct
        self.tag = tag

    def __await__(self):
        tok = Token(self.tag)
        self.acct.minted.append(tok)
        reply = yield tok
        # a throw() never gets here; a reply must be the one addressed to this token
        self.acct.got.append((tok.uid, reply))
        if reply != ("reply", tok.uid):
            self.acct.bad_reply.append((tok, ("reply", tok.uid), reply))
        return reply


async def suspend(acct: Accounting, tag, times: int):
    for j in range(times):
        await Suspend(acct, (tag, j))


class Task:
    """A coroutine (or any awaitable) driven by hand."""

    def __init__(self, awaitable, acct: Accounting, name=None):
        self.acct = acct
        self.name = name
        if hasattr(awaitable, "send"):
            self.gen = awaitable
        else:
            self.gen = awaitable.__await__()
        self.token = None  # token we are suspended at
        self.done = False
        self.result = None
        self.exc = None
        self.nsusp = 0

    def _handle(self, fn, *a):
        try:
            got = fn(*a)
        except StopIteration as e:
            self.done, self.result, self.token = True, e.value, None
            return ("done", e.value)
        except BaseException as e:  # noqa: BLE001 - we must see everything
            self.done, self.exc, self.token = True, e, None
            return ("raised", e)
        self.nsusp += 1
        if isinstance(got, Token):
            self.acct.seen.append(got)
            self.token = got
        else:
            self.acct.foreign.append(got)
            self.token = got
        return ("token", got)

    def step(self):
        """Resume until the next suspension (answering the pending token, if any)."""
        assert not self.done
        if self.token is None:
            return self._handle(self.gen.send, None)
        tok = self.token
        if isinstance(tok, Token):
            reply = ("reply", tok.uid)
            self.acct.sent.append((tok.uid, reply))
        else:
            reply = None  # what any loop answers to a bare yield
        return self._handle(self.gen.send, reply)

    def throw(self, exc):
        assert not self.done
        return self._handle(self.gen.throw, exc)

    def run(self, cancel_at=None, cancel_exc=None, limit=100000):
        """Run to completion; optionally throw ``cancel_exc`` at the n-th suspension."""
        n = 0
        r = self.step()
        while r[0] == "token":
            n += 1
            if n > limit:
                raise RuntimeError("task does not terminate")
            if cancel_at is not None and n == cancel_at:
                r = self.throw(cancel_exc)
            else:
                r = self.step()
        return r


def run_to_end(awaitable, acct, cancel_at=None, cancel_exc=None):
    return Task(awaitable, acct).run(cancel_at, cancel_exc)


# --------------------------------------------------------------------------- a guard against operations that never return


class Hang(BaseException):
    """Raised (again and again) into code that has used up its CPU-time allowance without suspending or returning."""


def guarded(seconds=30.0):
    """Decorator for the per-case functions run in pool workers: if one case burns `seconds` of CPU time (not
    wall-clock: a loaded machine does not matter) the library is spinning -- e.g. a loop that a seeded change
    made endless.  The case then ends with `Hang`, which the wrapped function's caller reports; the timer is periodic
    because such a loop may well swallow the first exception."""
    import functools
    import signal

    def deco(fn):
        @functools.wraps(fn)
        def wrapper(*a, **kw):
            state = {"fired": 0}

            def on_alarm(*_):
                state["fired"] += 1
                if state["fired"] >= 3:      # one firing may be a long garbage collection; a loop is still there a second later
                    raise Hang()

            try:
                old = signal.signal(signal.SIGVTALRM, on_alarm)
            except ValueError:          # not in the main thread of this process: no guard
                return fn(*a, **kw)
            signal.setitimer(signal.ITIMER_VIRTUAL, seconds, 0.5)
            try:
                return fn(*a, **kw)
            finally:
                signal.setitimer(signal.ITIMER_VIRTUAL, 0, 0)
                signal.signal(signal.SIGVTALRM, old)
        return wrapper
    return deco
