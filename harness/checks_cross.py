"""Cross-cutting checks: C03 (async neutrality), C17 (event-loop agnostic), C18 (cancellation),
C20 (bounded retention).  They re-use the TLC-generated ToolMachine cases under other replay
parameters (flavours, suspensions, cancellation points, long streams) and run the other
engines, keeping the findings that concern them.
"""
from __future__ import annotations

import gc
import itertools
import json
import multiprocessing as mp
import os
import random
import subprocess
import sys
import weakref

from . import tm
from .checks_tm import AGG_TOOLS, ITER_TOOLS, TIERS, case_kind, generate, nontrivial, result_projection
from .driver import Accounting, Suspend, Task, drain_asyncgens
from .instruments import FLAVOURS_CALL, Cancelled, Item, Recorder, make_source
from .report import SubVerdict, Verdict
from .tlc import MachineryError
from .tracecheck import validate

SRC_FLAVOURS = ("cls", "agen", "clsnoclose", "list", "seq", "iter", "clslazy", "clsgetattr", "clstruthy")


def stratified(rnd, cases, cap):
    """At most `cap` cases, shared out evenly over the tools (a tool with few cases keeps them all)."""
    if len(cases) <= cap:
        return list(cases)
    by = {}
    for c in cases:
        by.setdefault(c["cfg"]["tool"], []).append(c)
    out, left, groups = [], cap, sorted(by.items(), key=lambda kv: len(kv[1]))
    for j, (_, cs) in enumerate(groups):
        share = left // (len(groups) - j)
        take = cs if len(cs) <= share else rnd.sample(cs, share)
        out += take
        left -= len(take)
    return out


def _pool():
    return mp.Pool(min(16, os.cpu_count() or 4))


def outcome(o):
    """What a consumer can tell: items, how it ended, what was returned/raised."""
    return {"yields": tm.yields(o.log), "ending": o.ending, "result": result_projection(o.log) if o.log else None,
            "exc_type": o.exc_type, "exc_same": o.exc_same,
            "calls": [(e["f"], json.dumps(e["a"], sort_keys=True), e["res"]) for e in o.log if e["ev"] == "call"],
            "called_but_not_awaited": o.invoked_extra, "mutations": sorted(set(o.mutations))}


# =========================================================================== C03


def nsrc_of(case):
    return len(case["cfg"]["data"]) if case["cfg"]["tool"] != "iter" else 0


def c03_case(args):
    """Guarded: an operation that never returns is reported, the check goes on."""
    from .driver import Hang, guarded  # noqa: PLC0415
    try:
        return guarded(30.0)(_c03_case)(args)
    except Hang:
        case = args[0] if isinstance(args, tuple) else args
        return [("C03/" + case["cfg"]["tool"] + "/operation-never-returns",
                 {"engine": "toolmachine", "cfg": case["cfg"], "nnext": case["nnext"], "observed": "30 s of CPU time without suspending or returning"})], 1


def _c03_case(args):
    case, seed = args
    L = tm.load_lib()
    tool = case["cfg"]["tool"]
    rnd = random.Random(seed)
    out = []
    base = tm.execute(case, L, flav={"src": "cls", "call": "asyncdef"})
    ref = outcome(base)
    n = nsrc_of(case)
    if case["cfg"]["par"].get("alias"):
        # one object at every position: it has to be an iterator (a list would be iterated afresh per position)
        assigns = [(f,) * n for f in ("cls", "agen", "clsnoclose", "iter")]
    elif n <= 2:
        assigns = list(itertools.product(SRC_FLAVOURS, repeat=n))
    else:
        assigns = [tuple(rnd.choice(SRC_FLAVOURS) for _ in range(n)) for _ in range(12)] + [(f,) * n for f in SRC_FLAVOURS]
    runs = 0
    for srcs in assigns:
        for call in FLAVOURS_CALL:
            if call != "asyncdef" and not any(e["ev"] == "call" for e in case["log"]) and srcs != assigns[0]:
                continue
            fl = {"src": list(srcs) if n else "cls", "call": call, "outer": srcs[0] if srcs else "cls"}
            if tool == "await_each":
                continue
            o = tm.execute(case, L, flav=fl)
            runs += 1
            if case["fault"] and not o.fault_fired:
                continue   # the failing use is invisible with this flavour (a plain list cannot fail)
            got = outcome(o)
            if got != ref:
                what = [k for k in ref if got[k] != ref[k]]
                cls = "exception-differs" if set(what) <= {"exc_type", "exc_same", "ending"} else "items-differ" if "yields" in what else \
                      "result-differs" if "result" in what else "argument-mutated" if "mutations" in what else "callable-invocations-differ"
                out.append((f"C03/{tool}/{cls}-with-{'callable' if fl['call'] != 'asyncdef' and list(srcs) == ['cls'] * n else 'iterable'}-flavour",
                            {"engine": "toolmachine", "cfg": case["cfg"], "nnext": case["nnext"], "fault": tm.fault_plan(case),
                             "flavours": fl, "expected": {k: ref[k] for k in what}, "observed": {k: got[k] for k in what}}))
                break
    return out, runs


def kinds_table(L):
    """What every public callable returns before awaiting/iterating (second sentence of C03)."""
    import collections.abc as cabc  # noqa: PLC0415

    async def agen():
        yield 1

    async def coro(*a, **k):
        return 1

    def is_aw(x):
        return isinstance(x, cabc.Awaitable)

    def is_ait(x):
        return hasattr(x, "__anext__") and hasattr(x, "__aiter__")

    def is_acm(x):
        return hasattr(x, "__aenter__") and hasattr(x, "__aexit__")

    rows = {
        "anext": (lambda: L.anext(L.iter([1])), is_aw), "zip": (lambda: L.zip([1], [2]), is_ait), "map": (lambda: L.map(abs, [1]), is_ait),
        "filter": (lambda: L.filter(None, [1]), is_ait), "enumerate": (lambda: L.enumerate([1]), is_ait), "iter": (lambda: L.iter([1]), is_ait),
        "all": (lambda: L.all([1]), is_aw), "any": (lambda: L.any([1]), is_aw), "max": (lambda: L.max([1]), is_aw), "min": (lambda: L.min([1]), is_aw),
        "sum": (lambda: L.sum([1]), is_aw), "list": (lambda: L.list([1]), is_aw), "dict": (lambda: L.dict([(1, 2)]), is_aw), "set": (lambda: L.set([1]), is_aw),
        "tuple": (lambda: L.tuple([1]), is_aw), "sorted": (lambda: L.sorted([1]), is_aw), "reduce": (lambda: L.reduce(max, [1, 2]), is_aw),
        "lru_cache": (lambda: L.lru_cache(coro)(1), is_aw), "cache": (lambda: L.cache(coro)(1), is_aw),
        "closing": (lambda: L.closing(agen()), is_acm), "nullcontext": (lambda: L.nullcontext(1), is_acm), "ExitStack": (lambda: L.ExitStack(), is_acm),
        "contextmanager": (lambda: L.contextmanager(agen)(), is_acm),
        "accumulate": (lambda: L.accumulate([1]), is_ait), "batched": (lambda: L.batched([1], 1), is_ait), "cycle": (lambda: L.cycle([1]), is_ait),
        "chain": (lambda: L.chain([1]), is_ait), "compress": (lambda: L.compress([1], [1]), is_ait), "dropwhile": (lambda: L.dropwhile(abs, [1]), is_ait),
        "filterfalse": (lambda: L.filterfalse(None, [1]), is_ait), "takewhile": (lambda: L.takewhile(abs, [1]), is_ait), "islice": (lambda: L.islice([1], 1), is_ait),
        "starmap": (lambda: L.starmap(max, [(1, 2)]), is_ait), "pairwise": (lambda: L.pairwise([1]), is_ait), "zip_longest": (lambda: L.zip_longest([1]), is_ait),
        "tee": (lambda: L.tee([1])[0], is_ait), "groupby": (lambda: L.groupby([1]), is_ait),
        "borrow": (lambda: L.borrow(agen()), is_ait), "scoped_iter": (lambda: L.scoped_iter([1]), is_acm), "await_each": (lambda: L.await_each([]), is_ait),
        "any_iter": (lambda: L.any_iter([1]), is_ait), "apply": (lambda: L.apply(max, coro(), coro()), is_aw), "sync": (lambda: L.sync(abs)(1), is_aw),
        "merge": (lambda: L.merge([1]), is_ait), "nlargest": (lambda: L.nlargest([1], 1), is_aw), "nsmallest": (lambda: L.nsmallest([1], 1), is_aw),
    }
    bad, checked = [], 0
    import warnings  # noqa: PLC0415

    with warnings.catch_warnings():
        warnings.simplefilter("ignore")
        for name in L.__all__:
            if name in ("ContextDecorator", "cached_property"):
                continue
            if name not in rows:
                bad.append((name, "no row in the kind table (new public callable?)"))
                continue
            mk, pred = rows[name]
            try:
                x = mk()
            except Exception as e:  # noqa: BLE001
                bad.append((name, f"call failed: {e!r}"))
                continue
            checked += 1
            if not pred(x):
                bad.append((name, f"returned a plain {type(x).__name__}"))
            if hasattr(x, "close") and is_aw(x):
                x.close()
        class R:
            @L.cached_property
            async def p(self):
                return 1
        checked += 1
        if not is_aw(R().p):
            bad.append(("cached_property", "attribute is not awaitable"))
    gc.collect()
    return bad, checked


def numeric_sweep(L):
    """Plain numbers through every iterable flavour: the result may not depend on the flavour
    (numeric accuracy itself is outside this technique; only flavour-independence is judged)."""
    from fractions import Fraction  # noqa: PLC0415

    out, runs = [], 0
    datasets = [[0.1] * 10, [1e16, 1.0, -1e16], [1, 2.5, True, Fraction(1, 3)], [3, 1, 2, 1.0], []]

    def flav(kind, data):
        if kind == "list":
            return list(data)
        if kind == "iter":
            return iter(list(data))
        if kind == "tuple":
            return tuple(data)

        async def agen():
            for x in data:
                yield x
        if kind == "agen":
            return agen()

        class It:
            def __init__(self):
                self.it = iter(list(data))

            def __aiter__(self):
                return self

            async def __anext__(self):
                try:
                    return next(self.it)
                except StopIteration:
                    raise StopAsyncIteration from None
        return It()

    ops = {"sum": lambda it: L.sum(it), "sum0.0": lambda it: L.sum(it, 0.0), "max": lambda it: L.max(it, default=None),
           "min": lambda it: L.min(it, default=None), "sorted": lambda it: L.sorted(it), "list": lambda it: L.list(it),
           "accumulate": lambda it: L.list(L.accumulate(it, initial=0)), "reduce": lambda it: L.reduce(lambda a, b: a + b, it, 0)}
    for name, op in ops.items():
        for data in datasets:
            res = {}
            for kind in ("list", "iter", "tuple", "agen", "cls"):
                r = Task(op(flav(kind, data)), Accounting()).run()
                runs += 1
                res[kind] = (r[0], repr(r[1]) if r[0] == "done" else type(r[1]).__name__)
            if len(set(res.values())) != 1:
                out.append((f"C03/{name.rstrip('0.')}/numeric-result-depends-on-iterable-flavour",
                            {"engine": "numeric-sweep", "cfg": {"data": repr(data)}, "observed": res}))
    return out, runs


def check_c03(prop, tier, seed):
    v = Verdict(prop, tier, seed)
    cases, stats = generate(tier, ITER_TOOLS + AGG_TOOLS + ["any_iter", "apply", "sync"], faults=True, prefixes=False)
    full = [c for c in cases if case_kind(c) == "full"]
    faults = [c for c in cases if case_kind(c) == "fault"]
    rnd = random.Random(seed)
    cap_full = 2500 if tier == "quick" else 40000
    cap_fault = 1500 if tier == "quick" else 20000
    chosen = stratified(rnd, full, cap_full) + stratified(rnd, faults, cap_fault)
    runs = 0
    with _pool() as pool:
        for out, n in pool.imap_unordered(c03_case, [(c, seed) for c in chosen], chunksize=max(1, len(chosen) // 256)):
            runs += n
            for sig, d in out:
                v.violation(sig, d)
    nrand = 400 if tier == "quick" else 10000
    with _pool() as pool:
        for out, n in pool.imap_unordered(c03_random, [(seed * 52361 + i) % (2 ** 31) for i in range(nrand)], chunksize=16):
            runs += n
            for sig, d in out:
                v.violation(sig, d)
    out, n = numeric_sweep(tm.load_lib())
    runs += n
    for sig, d in out:
        v.violation(sig, d)
    # exit callbacks / exit handlers of ExitStack: the same history with every concrete kind of callable
    from . import eng_exitstack  # noqa: PLC0415
    found, n, xst = eng_exitstack.flavour_dependence(seed)
    runs += n
    for sig, d in found:
        v.violation(sig, d)
    # groupby over a source of another flavour (an async iterator without aclose): closing must not depend on it
    from . import eng_groupby  # noqa: PLC0415
    gviol, gtot, _ = eng_groupby.collect("quick", ["C04"])
    runs += gtot.get("replays", 0)
    for p_, sig, detail in gviol:
        if sig.endswith("+source-without-aclose"):
            v.violation("C03/groupby/" + sig.split("/", 2)[2].replace("+source-without-aclose", "") + "-with-iterable-flavour", detail)
    # the argument of scoped_iter: the same history over every kind of iterable
    from . import eng_handles  # noqa: PLC0415
    found, n2, hst = eng_handles.flavour_dependence(seed)
    runs += n2
    for sig, d in found:
        v.violation(sig, d)
    bad, checked = kinds_table(tm.load_lib())
    for name, why in bad:
        v.violation(f"C03/{name}/returns-plain-value", {"engine": "kinds", "expected": "awaitable | async iterator | async context manager", "observed": why})
    for c in chosen[:3]:
        v.sample({"cfg": c["cfg"], "nnext": c["nnext"], "fault": c["fault"], "flavours": "all assignments of " + str(SRC_FLAVOURS) + " x " + str(FLAVOURS_CALL)})
    v.assumptions += ["the reference for each case is asyncstdlib's own result with class-based async sources and async def callables (that this equals the stdlib is C01/C02)",
                      "a failing use that a flavour makes invisible (a plain list cannot fail) is skipped for that flavour"]
    return v.finish({
        "states": stats["states"], "transitions": stats["transitions"], "traces_validated_against_impl": runs,
        "cases": len(chosen), "cases_available": len(full) + len(faults), "public_callables_checked": checked, "exitstack_flavour_replays": n, "exitstack_model": xst, "scoped_iter_flavour_replays": n2, "handles_model": hst,
        "evaluations": runs, "distinct_nontrivial": len([c for c in chosen if nontrivial(c)]), "exhaustive": len(chosen) == len(full) + len(faults),
        "rule": "ToolMachine cases (full consumption and single faults) x all assignments of 6 iterable flavours to <=2 iterable parameters (sampled for 3) x 7 callable flavours; ExitStack histories x 5 concrete kinds per entry class",
        "checker_cmd": "tlc spec/ToolMachine.tla (case enumeration)",
    })


# =========================================================================== C17

_LOOP_CALLS = []


def _patch_asyncio():
    import asyncio  # noqa: PLC0415
    import asyncio.events as ev  # noqa: PLC0415

    for mod, name in ((asyncio, "get_running_loop"), (asyncio, "get_event_loop"), (asyncio, "new_event_loop"),
                      (ev, "get_running_loop"), (ev, "get_event_loop"), (ev, "_get_running_loop"), (ev, "new_event_loop")):
        orig = getattr(mod, name)
        if getattr(orig, "_verif", False):
            continue

        def wrapper(*a, _orig=orig, _name=name, **k):
            _LOOP_CALLS.append(_name)
            return _orig(*a, **k)

        wrapper._verif = True
        setattr(mod, name, wrapper)


def expected_suspensions(o, susp, fl):
    n = 0
    for e in o.log:
        if e["ev"] == "pull":
            i = e["src"]
            f = fl["src"][i - 1] if isinstance(fl["src"], list) and i >= 1 else (fl.get("outer") if i == 0 else fl["src"])
            if isinstance(fl["src"], list) and i == 0:
                f = fl.get("outer", "cls")
            if f in ("cls", "agen", "clsnoclose", "clstruthy", "clsraiseclose", "clslazy", "clsgetattr"):
                n += susp
        elif e["ev"] == "call" and fl["call"] != "def":
            n += susp
        elif e["ev"] == "await":
            n += susp
    for h in o.handles:           # asynchronous closes of class-based sources suspend as well
        if type(h).__name__ in ("ClsSource", "ClsSourceTruthyClose", "ClsSourceRaisingClose"):
            n += susp * o.closes.get(getattr(h, "idx", -1), 0)   # (closes deferred to the loop come later)
    return n


def c17_case(args):
    """Guarded: an operation that never returns is reported, the check goes on."""
    from .driver import Hang, guarded  # noqa: PLC0415
    try:
        return guarded(30.0)(_c17_case)(args)
    except Hang:
        case = args[0] if isinstance(args, tuple) else args
        return [("C17/" + case["cfg"]["tool"] + "/operation-never-returns",
                 {"engine": "toolmachine", "cfg": case["cfg"], "nnext": case["nnext"], "observed": "30 s of CPU time without suspending or returning"})], 1


def _c17_case(args):
    case, susp = args
    _patch_asyncio()
    L = tm.load_lib()
    out = []
    n = nsrc_of(case)
    tool = case["cfg"]["tool"]
    combos = [{"src": ["cls"] * n, "call": "asyncdef", "outer": "cls"}, {"src": ["agen"] * n, "call": "partial", "outer": "agen"},
              {"src": ["cls"] * n, "call": "obj", "outer": "cls"}]
    if n >= 2:
        combos.append({"src": ["cls", "iter"] + ["agen"] * (n - 2), "call": "def", "outer": "cls"})
        combos.append({"src": ["clsraiseclose"] * n, "call": "asyncdef", "outer": "cls"})     # failing closes need no loop either
    runs = 0
    for fl in combos:
        before = len(_LOOP_CALLS)
        o = tm.execute(case, L, flav=fl, susp=susp)
        runs += 1
        d = {"engine": "toolmachine", "cfg": case["cfg"], "nnext": case["nnext"], "flavours": fl, "susp": susp}
        if not o.acct.ok():
            out.append((f"C17/{tool}/token-or-reply-not-passed-through", {**d, "observed": o.acct.describe()}))
        elif tool not in ("apply",) and o.nsusp + o.nsusp_close != expected_suspensions(o, susp, fl) and tool != "await_each":
            out.append((f"C17/{tool}/suspends-{'more' if o.nsusp + o.nsusp_close > expected_suspensions(o, susp, fl) else 'less'}-than-user-awaitables",
                        {**d, "expected": expected_suspensions(o, susp, fl), "observed": o.nsusp + o.nsusp_close}))
        if len(_LOOP_CALLS) != before:
            out.append((f"C17/{tool}/touches-asyncio-loop", {**d, "observed": _LOOP_CALLS[before:][:3]}))
    # a cancellation that is asyncio's own exception class must still only travel through user awaitables
    import asyncio  # noqa: PLC0415

    fl = combos[0]
    base = tm.execute(case, L, flav=fl, susp=1)
    for k in range(1, min(base.nsusp, 4) + 1):
        before = len(_LOOP_CALLS)
        o = tm.execute(case, L, flav=fl, susp=1, cancel_at=k, cancel_cls=asyncio.CancelledError)
        runs += 1
        if not o.acct.ok() or len(_LOOP_CALLS) != before:
            out.append((f"C17/{tool}/cancellation-handled-through-foreign-awaitable",
                        {"engine": "toolmachine", "cfg": case["cfg"], "nnext": case["nnext"], "cancel_at": k,
                         "observed": {**o.acct.describe(), "loop_calls": _LOOP_CALLS[before:][:3]}}))
            break
    # all-synchronous arguments: the operation completes without suspending at all
    fl = {"src": ["iter"] * n, "call": "def", "outer": "iter"}
    if tool not in ("any_iter", "await_each", "apply") or not (case["cfg"]["par"].get("aw") or case["cfg"]["par"].get("outer") or tool in ("await_each", "apply")):
        o = tm.execute(case, L, flav=fl, susp=susp)
        runs += 1
        if o.nsusp != 0 or o.acct.minted or o.acct.foreign:
            out.append((f"C17/{tool}/suspends-with-only-synchronous-arguments",
                        {"engine": "toolmachine", "cfg": case["cfg"], "nnext": case["nnext"], "observed": {"suspensions": o.nsusp, **o.acct.describe()}}))
    return out, runs


def groupby_concurrent(L):
    """The groupby iterator and its latest group advanced by two tasks in every interleaving of
    up to 7 steps while the source suspends: nothing but the source's own tokens may reach the
    loop (what the two consumers receive is not judged here -- the documentation calls
    concurrent advancing unsafe)."""
    from .instruments import ClsSource  # noqa: PLC0415

    out = []
    for data in ([1, 1, 2], [1, 2, 2, 1]):
        for sched in itertools.product("AB", repeat=7):
            rec = Recorder()
            rec.susp = 1
            src = ClsSource(rec, 1, [Item(1, p + 1, k) for p, k in enumerate(data)])
            gb = L.groupby(src)
            r = Task(gb.__anext__(), rec.acct).run()
            if r[0] != "done":
                break
            grp = [r[1][1]]
            tasks = {"A": None, "B": None}
            problems = None
            for who in sched:
                t = tasks[who]
                if t is None or t.done:
                    t = tasks[who] = Task(gb.__anext__() if who == "A" else grp[-1].__anext__(), rec.acct)
                r = t.step()
                if r[0] == "done" and who == "A":
                    grp.append(r[1][1])
                if r[0] == "raised" and not isinstance(r[1], StopAsyncIteration):
                    problems = f"raised {type(r[1]).__name__}: {r[1]}"
                    break
                if r[0] == "token" and not hasattr(r[1], "uid"):
                    problems = f"foreign suspension {r[1]!r}"
                    break
            for t in tasks.values():      # let everything finish
                n = 0
                while t is not None and not t.done and n < 20 and problems is None:
                    r = t.step()
                    n += 1
            if not rec.acct.ok():
                problems = problems or str(rec.acct.describe())
            if problems:
                out.append(("C17/groupby/concurrent-advance-leaves-user-awaitables",
                            {"engine": "scenario", "cfg": {"data": data, "schedule": "".join(sched)}, "observed": problems[:300]}))
                break
    return out


def c17_random(seed_):
    """A random configuration beyond the bounds, two suspensions per asynchronous use: tokens, replies and the
    number of suspensions are accounted for as in the enumerated cases."""
    from .checks_tm import random_case  # noqa: PLC0415
    from .driver import Hang, guarded  # noqa: PLC0415

    rnd = random.Random(seed_)
    case = random_case(rnd, False, agg=rnd.random() < 0.3)
    L = tm.load_lib()
    tool = case["cfg"]["tool"]
    n = nsrc_of(case)
    fl = rnd.choice([{"src": ["cls"] * n, "call": "asyncdef", "outer": "cls"}, {"src": ["agen"] * n, "call": "partial", "outer": "agen"},
                     {"src": ["cls"] * n, "call": "obj", "outer": "cls"}])
    out = []
    try:
        def go():
            o = tm.execute(case, L, flav=fl, susp=2)
            d = {"engine": "toolmachine", "mode": "random", "cfg": case["cfg"], "nnext": case["nnext"], "flavours": fl, "susp": 2}
            if not o.acct.ok():
                out.append((f"C17/{tool}/token-or-reply-not-passed-through", {**d, "observed": o.acct.describe()}))
            elif o.nsusp + o.nsusp_close != expected_suspensions(o, 2, fl):
                out.append((f"C17/{tool}/suspends-{'more' if o.nsusp + o.nsusp_close > expected_suspensions(o, 2, fl) else 'less'}-than-user-awaitables",
                            {**d, "expected": expected_suspensions(o, 2, fl), "observed": o.nsusp + o.nsusp_close}))
            o2 = tm.execute(case, L, flav={"src": ["iter"] * n, "call": "def", "outer": "iter"}, susp=2)
            if o2.nsusp != 0 or o2.acct.minted or o2.acct.foreign:
                out.append((f"C17/{tool}/suspends-with-only-synchronous-arguments", {**d, "observed": {"suspensions": o2.nsusp, **o2.acct.describe()}}))
        guarded(30.0)(go)()
    except Hang:
        out.append((f"C17/{tool}/operation-never-returns", {"engine": "toolmachine", "mode": "random", "cfg": case["cfg"]}))
    return out, 2


def c03_random(seed_):
    """A random configuration beyond the bounds under a random assignment of flavours: same outcome as the canonical run."""
    from .checks_tm import random_case  # noqa: PLC0415
    from .driver import Hang, guarded  # noqa: PLC0415

    rnd = random.Random(seed_)
    case = random_case(rnd, False, agg=rnd.random() < 0.4)
    L = tm.load_lib()
    tool = case["cfg"]["tool"]
    n = nsrc_of(case)
    out = []
    try:
        def go():
            ref = outcome(tm.execute(case, L, flav={"src": "cls", "call": "asyncdef"}))
            for _ in range(3):
                fl = {"src": [rnd.choice(SRC_FLAVOURS) for _ in range(n)] if n else "cls", "call": rnd.choice(FLAVOURS_CALL), "outer": rnd.choice(SRC_FLAVOURS)}
                got = outcome(tm.execute(case, L, flav=fl))
                if got != ref:
                    what = [k for k in ref if got[k] != ref[k]]
                    cls = "exception-differs" if set(what) <= {"exc_type", "exc_same", "ending"} else "items-differ" if "yields" in what else \
                          "result-differs" if "result" in what else "argument-mutated" if "mutations" in what else "callable-invocations-differ"
                    out.append((f"C03/{tool}/{cls}-with-flavour", {"engine": "toolmachine", "mode": "random", "cfg": case["cfg"], "nnext": case["nnext"],
                                                                 "flavours": fl, "expected": {k: ref[k] for k in what}, "observed": {k: got[k] for k in what}}))
                    break
        guarded(30.0)(go)()
    except Hang:
        out.append((f"C03/{tool}/operation-never-returns", {"engine": "toolmachine", "mode": "random", "cfg": case["cfg"]}))
    return out, 4


def check_c17(prop, tier, seed):
    v = Verdict(prop, tier, seed)
    _patch_asyncio()
    cases, stats = generate(tier, ITER_TOOLS + AGG_TOOLS + ["any_iter", "await_each", "apply", "sync", "anext"], faults=False, prefixes=True)
    rnd = random.Random(seed)
    cap = 1500 if tier == "quick" else 60000
    chosen = stratified(rnd, cases, cap)
    runs = 0
    with _pool() as pool:
        for out, n in pool.imap_unordered(c17_case, [(c, 2) for c in chosen], chunksize=max(1, len(chosen) // 256)):
            runs += n
            for sig, d in out:
                v.violation(sig, d)
    nrand = 400 if tier == "quick" else 10000
    with _pool() as pool:
        for out, n in pool.imap_unordered(c17_random, [(seed * 48611 + i) % (2 ** 31) for i in range(nrand)], chunksize=16):
            runs += n
            for sig, d in out:
                v.violation(sig, d)
    # long all-synchronous inputs: no library-owned checkpoint may appear however long the input
    big = list(range(10000))
    L_ = tm.load_lib()
    for name, mk in (("list", lambda: L_.list(big)), ("sum", lambda: L_.sum(big)), ("map", lambda: L_.list(L_.map(abs, big))),
                     ("zip", lambda: L_.list(L_.zip(big, big))), ("filter", lambda: L_.list(L_.filter(None, big))),
                     ("islice", lambda: L_.list(L_.islice(big, 5000, None))), ("sorted", lambda: L_.sorted(list(range(70000)))),
                     ("chain", lambda: L_.list(L_.chain(big, big))), ("reduce", lambda: L_.reduce(max, big)),
                     ("tee", lambda: L_.list(L_.tee(big, n=1)[0])), ("enumerate", lambda: L_.list(L_.enumerate(big))),
                     ("any_iter", lambda: L_.list(L_.any_iter(big))),
                     ("iter", lambda: L_.list(L_.iter(iter([7] * 3000 + [None]).__next__, None))),      # the same object again and again
                     ("cycle", lambda: L_.list(L_.islice(L_.cycle([1, 2, 3]), 5000))), ("accumulate", lambda: L_.list(L_.accumulate(big))),
                     ("batched", lambda: L_.list(L_.batched(big, 3))), ("pairwise", lambda: L_.list(L_.pairwise(big))),
                     ("takewhile", lambda: L_.list(L_.takewhile(lambda x: True, big))), ("dropwhile", lambda: L_.list(L_.dropwhile(lambda x: x < 5000, big))),
                     ("compress", lambda: L_.list(L_.compress(big, big))), ("starmap", lambda: L_.list(L_.starmap(max, zip(big, big)))),
                     ("min", lambda: L_.min(big)), ("dict", lambda: L_.dict(zip(big, big))), ("set", lambda: L_.set(big)),
                     ("nlargest", lambda: L_.nlargest(big, 2000)), ("merge", lambda: L_.list(L_.merge(big, big))),
                     ("groupby", lambda: L_.list(L_.map(lambda kg: kg[0], L_.groupby(big, lambda x: x // 10))))):
        acct = Accounting()
        t = Task(mk(), acct)
        r = t.step()
        runs += 1
        if r[0] != "done":
            v.violation(f"C17/{name}/suspends-with-only-synchronous-arguments",
                        {"engine": "scenario", "cfg": {"items": len(big)}, "observed": repr(r)[:200]})
    # synchronous callables whose results merely *look* like something to wait for (a thread-pool future, a
    # generator): they are plain values -- handed back as they are, nothing is awaited, no loop is needed
    import concurrent.futures as cf  # noqa: PLC0415

    def plain_values():
        fut = cf.Future()
        fut.set_result(1)
        pending = cf.Future()
        gen = (x for x in ())
        return [fut, pending, gen]

    for val in plain_values():
        kind = type(val).__name__
        for name, mk, pick in (("sync", lambda v=val: L_.sync(lambda: v)(), lambda r: r),
                               ("map", lambda v=val: L_.list(L_.map(lambda x: v, [0])), lambda r: r[0]),
                               ("apply", lambda v=val: L_.apply(lambda: v), lambda r: r),
                               ("reduce", lambda v=val: L_.reduce(lambda a, b: v, [0, 0]), lambda r: r)):
            acct = Accounting()
            r = Task(mk(), acct).step()
            runs += 1
            if r[0] != "done" or pick(r[1]) is not val:
                v.violation(f"C17/{name}/plain-result-of-synchronous-callable-awaited-or-replaced",
                            {"engine": "scenario", "cfg": {"result_kind": kind}, "observed": repr(r)[:200]})
    # library iterators that are simply dropped -- advanced once, neither exhausted nor closed -- are the garbage
    # collector's business: no loop is looked for, nothing is scheduled
    import gc  # noqa: PLC0415

    async def agen3():
        for x in (1, 2, 3):
            yield x

    for name, mk in (("chain", lambda: L_.chain(agen3(), agen3())), ("chain.from_iterable", lambda: L_.chain.from_iterable([agen3(), agen3()])),
                     ("zip", lambda: L_.zip(agen3(), agen3())), ("map", lambda: L_.map(abs, agen3())), ("islice", lambda: L_.islice(agen3(), 2)),
                     ("merge", lambda: L_.merge(agen3(), agen3())), ("groupby", lambda: L_.groupby(agen3())), ("tee", lambda: L_.tee(agen3(), n=2)[0]),
                     ("zip_longest", lambda: L_.zip_longest(agen3(), agen3())), ("batched", lambda: L_.batched(agen3(), 2)),
                     ("borrow", lambda: L_.borrow(agen3())), ("accumulate", lambda: L_.accumulate(agen3()))):
        before = len(_LOOP_CALLS)
        it = mk()
        it = it if hasattr(it, "__anext__") else it.__aiter__()
        acct = Accounting()
        Task(it.__anext__(), acct).run()
        del it
        gc.collect()
        drain_asyncgens(acct)
        gc.collect()
        runs += 1
        if len(_LOOP_CALLS) != before or acct.foreign:
            v.violation(f"C17/{name}/dropped-iterator-looks-for-an-event-loop",
                        {"engine": "scenario", "observed": {"loop_calls": _LOOP_CALLS[before:][:3], "foreign": [repr(x)[:60] for x in acct.foreign[:2]]}})
    # a borrowed handle closed while another task is suspended inside the source through it: whatever the answer
    # (Python refuses to close a running generator), the close does not wait on something of the library's own
    from .instruments import ClsSource  # noqa: PLC0415
    for name, mk in (("borrow", lambda src: L_.borrow(src)),):
        rec_ = Recorder()
        rec_.susp = 1
        src = ClsSource(rec_, 1, [Item(1, 1, 1), Item(1, 2, 1)])
        h = mk(src)
        t1 = Task(h.__anext__(), rec_.acct)
        r1 = t1.step()
        t2 = Task(h.aclose(), rec_.acct)
        r2 = t2.step()
        runs += 1
        if r1[0] == "token" and r2[0] == "token" and not isinstance(r2[1], type(r1[1])):
            v.violation(f"C17/{name}/close-of-a-busy-handle-waits-without-user-awaitable", {"engine": "scenario", "observed": repr(r2)[:120]})
        elif not rec_.acct.ok() and rec_.acct.foreign:
            v.violation(f"C17/{name}/close-of-a-busy-handle-waits-without-user-awaitable", {"engine": "scenario", "observed": rec_.acct.describe()})
        if r2[0] == "token":
            try:
                t2.throw(Cancelled("stop"))
            except BaseException:  # noqa: BLE001
                pass
        while not t1.done:
            t1.step()
    # an ExitStack whose exit suppresses a cancellation (asyncio's own exception class): what that means for the task is
    # the event loop's business, the library does not reach for asyncio
    import asyncio as _asyncio  # noqa: PLC0415

    class Suppress:
        async def __aenter__(self):
            return self

        async def __aexit__(self, et, ev, tb):
            return True

    async def cancelled_block():
        async with L_.ExitStack() as st:
            await st.enter_context(Suppress())
            raise _asyncio.CancelledError()
        return "suppressed"

    before = len(tm.LIB_ASYNCIO_CALLS)
    r = Task(cancelled_block(), Accounting()).step()
    runs += 1
    if len(tm.LIB_ASYNCIO_CALLS) != before or r != ("done", "suppressed"):
        v.violation("C17/ExitStack/library-uses-asyncio", {"engine": "scenario", "observed": {"calls": tm.LIB_ASYNCIO_CALLS[before:][:3], "result": repr(r)[:100]}})
    # two parties closing one ExitStack, the first suspended inside an exit callback: whatever the second one gets to do,
    # it suspends only where a user's awaitable suspends (it has nothing of the library's own to wait for)
    acct2 = Accounting()
    ran = []

    async def slow_exit(*_a):
        ran.append("slow:start")
        await Suspend(acct2, ("exit", 1))
        ran.append("slow:end")

    def quick_exit(*_a):
        ran.append("quick")

    stack2 = L_.ExitStack()
    stack2.callback(quick_exit)
    stack2.push(slow_exit)
    first, second = Task(stack2.aclose(), acct2), Task(stack2.aclose(), acct2)
    r1 = first.step()
    steps = 0
    r2 = second.step()
    while r2[0] == "token" and steps < 10:
        steps += 1
        r2 = second.step()
    while r1[0] == "token" and steps < 30:
        steps += 1
        r1 = first.step()
    runs += 1
    if not acct2.ok() or r2[0] == "token" or r1[0] == "token":
        v.violation("C17/ExitStack/second-closer-waits-without-user-awaitable",
                    {"engine": "scenario", "observed": {"accounting": acct2.describe(), "first": repr(r1)[:80], "second": repr(r2)[:80], "ran": ran}})
    # importing and using the library needs no running loop and creates none
    code = ("import asyncio, asyncio.events as ev, sys; sys.path.insert(0, %r); import asyncstdlib as a\n"
            "assert ev._get_running_loop() is None\n"
            "pol = asyncio.get_event_loop_policy(); loc = getattr(pol, '_local', None)\n"
            "assert getattr(loc, '_loop', None) is None, 'import created an event loop'\n"
            "c = a.list(a.map(abs, [1, -2]))\n"
            "try:\n    c.send(None)\nexcept StopIteration as e:\n    assert e.value == [1, 2]\n"
            "assert getattr(loc, '_loop', None) is None\nprint('ok')\n") % tm.REPO
    p = subprocess.run([sys.executable, "-W", "error", "-c", code], capture_output=True, text=True, timeout=60)
    if p.returncode != 0 or "ok" not in p.stdout:
        v.violation("C17/import/needs-or-creates-event-loop", {"engine": "subprocess", "observed": (p.stdout + p.stderr)[-400:]})
    for sig, d in groupby_concurrent(tm.load_lib()):
        v.violation(sig, d)
    # the concurrency engines exchange tokens with locks, getters and wrapped functions too
    sub = {}
    from . import eng_cprop, eng_decor, eng_exitstack, eng_groupby, eng_handles, eng_lruconc, eng_simplecm, eng_tee  # noqa: PLC0415

    def only_foreign(sig, d):
        if sig.startswith("X01/") and isinstance(d.get("cfg"), dict) and d["cfg"].get("ccancel"):
            # what the loop throws at a suspended user awaitable has to arrive there, unchanged and at once
            return "C17/" + sig.split("/")[1] + "/thrown-exception-not-passed-to-the-user-awaitable"
        return ("C17/" + sig.split("/", 1)[1]) if ("foreign-suspension" in sig or "suspends-without" in sig or "library-uses-asyncio" in sig) else None

    engines = [("tee", eng_tee, "C09"), ("lruconc", eng_lruconc, "C11"), ("cprop", eng_cprop, "C12"), ("decorator", eng_decor, "C15"),
               ("groupby", eng_groupby, "C16"), ("simplecm", eng_simplecm, "X01")]
    if tier == "thorough":   # these two have no suspension points of their own besides the tools they call
        engines += [("exitstack", eng_exitstack, "C14"), ("handles", eng_handles, "C08")]
    for name, eng, p_ in engines:
        sv = SubVerdict(v, only_foreign, name)
        eng.check(p_, "mini" if name in ("tee", "lruconc", "cprop") else "quick", seed, into=sv)
        sub[name] = {k: sv.coverage_out.get(k) for k in ("states", "transitions", "traces_validated_against_impl") if sv.coverage_out}
    for c in chosen[:3]:
        v.sample({"cfg": c["cfg"], "nnext": c["nnext"], "susp": 2})
    v.assumptions += ["user awaitables yield fresh token objects and accept only the reply addressed to that token; the driver answers every token",
                      "expected number of suspensions = 2 per use of an async source / async callable / awaitable, as logged by the instruments"]
    return v.finish({
        "states": stats["states"], "transitions": stats["transitions"], "traces_validated_against_impl": runs,
        "cases": len(chosen), "cases_available": len(cases), "sub_engines": sub, "loop_accessor_calls": len(_LOOP_CALLS),
        "evaluations": runs, "distinct_nontrivial": len([c for c in chosen if nontrivial(c)]), "exhaustive": len(chosen) == len(cases),
        "rule": "every ToolMachine case (all consumer prefixes) replayed with 2 suspensions per async use under 3-4 flavour mixes + all-synchronous arguments; the token/reply pairing and the suspension count are checked",
        "checker_cmd": "tlc spec/ToolMachine.tla ; the concurrency engines' quick conformance runs",
    })


# =========================================================================== C18


def c18_case(args):
    """Guarded: an operation that never returns is reported, the check goes on."""
    from .driver import Hang, guarded  # noqa: PLC0415
    try:
        return guarded(30.0)(_c18_case)(args)
    except Hang:
        case = args[0] if isinstance(args, tuple) else args
        return [("C18/" + case["cfg"]["tool"] + "/operation-never-returns",
                 {"engine": "toolmachine", "cfg": case["cfg"], "nnext": case["nnext"], "observed": "30 s of CPU time without suspending or returning"})], 1


def _c18_case(case):
    import asyncio  # noqa: PLC0415

    L = tm.load_lib()
    out, runs = [], 0
    tool = case["cfg"]["tool"]
    nsrc_ = nsrc_of(case)
    for src in ("cls", "agen", "clstruthy") + (("mixed",) if nsrc_ >= 2 else ()):
        fl = {"src": src, "call": "asyncdef"}
        if src == "mixed":      # an iterator that cannot be closed ahead of closable ones: the cleanup goes on past it
            fl = {"src": ["clsnoclose"] + ["cls"] * (nsrc_ - 1), "call": "asyncdef", "outer": "cls"}
        base = tm.execute(case, L, flav=fl, susp=1)
        n = base.nsusp
        for k in range(1, n + 1):
            # what gets thrown in: the harness' own BaseException, asyncio's, or KeyboardInterrupt
            ccls = (Cancelled, asyncio.CancelledError, KeyboardInterrupt)[(k + len(case["log"])) % 3]
            o = tm.execute(case, L, flav=fl, susp=1, cancel_at=k, cancel_cls=ccls)
            runs += 1
            if not o.acct.ok():
                out.append((f"C18/{tool}/cancellation-handled-through-foreign-awaitable",
                            {"engine": "toolmachine", "cfg": case["cfg"], "nnext": case["nnext"], "cancel_class": ccls.__name__, "observed": o.acct.describe()}))
                continue
            d = {"engine": "toolmachine", "cfg": case["cfg"], "nnext": case["nnext"], "flavour": src, "cancel_at_suspension": k, "of": n}
            if o.ending != "cancel" or o.exc_same is not True:
                how = "swallowed" if o.exc_type is None else "replaced" if o.ending == "cancel" else "lost"
                out.append((f"C18/{tool}/cancellation-{how}", {**d, "expected": "the thrown exception propagates", "observed": {"ending": o.ending, "type": o.exc_type, "same": o.exc_same}}))
                continue
            bad = sorted(i for i, r in o.released.items() if not r)
            if tool == "chain" and case["cfg"]["par"]["outer"]:
                fetched = sum(1 for e in o.log if e["ev"] == "pull" and e["src"] == 0 and e["res"] == "item")
                bad = [i for i in bad if i == 0 or i <= fetched]
            if tool == "anext":
                bad = []     # anext only borrows its iterator: there is no library iterator whose close would release it
            if bad:
                who = "unstarted-source" if all(o.states.get(i) == "new" for i in bad) else "source"
                during = "+cancelled-inside-the-close-of-another-source" if (o.cancel_tag and o.cancel_tag[0] and o.cancel_tag[0][0] == "aclose") else ""
                out.append((f"C18/{tool}/unreleased-{who}-after-cancel{during}", {**d, "expected": "closed|exhausted", "observed": o.states,
                                                                                 "cancelled_at_token": o.cancel_tag}))
            if o.close_error:
                out.append((f"C18/{tool}/close-after-cancel-raises", {**d, "observed": o.close_error}))
    return out, runs


def exitstack_cancel(L):
    """Suspending exits; a cancellation lands at the j-th suspension of the unwind: the remaining
    exits still run, with that exception, and it propagates -- as nested `async with` would."""
    out, runs = [], 0
    for n in (1, 2, 3):
        for behs in itertools.product(("falsy", "truthy"), repeat=n):
            for blockraises in (False, True):
                for j in range(1, n + 1):
                    res = {}
                    for which in ("stack", "nested"):
                        acct = Accounting()
                        log = []
                        cancel = Cancelled("cancel")

                        def mk(e, b, acct=acct, log=log):
                            class CM:
                                async def __aenter__(self):
                                    return e

                                async def __aexit__(self, et, ev, tb):
                                    try:
                                        await Suspend(acct, ("exit", e))
                                    except BaseException as x:  # noqa: BLE001
                                        log.append((e, "cancelled-inside" if x is cancel else "other"))
                                        raise
                                    log.append((e, "none" if ev is None else "cancel" if ev is cancel else "block" if isinstance(ev, KeyError) else "other"))
                                    return b == "truthy"
                            return CM()

                        cms = [mk(e + 1, b) for e, b in enumerate(behs)]

                        async def body(cms=cms, which=which):
                            if which == "stack":
                                async with L.ExitStack() as st:
                                    for cm in cms:
                                        await st.enter_context(cm)
                                    if blockraises:
                                        raise KeyError("block")
                            else:
                                async def nest(rest):
                                    if not rest:
                                        if blockraises:
                                            raise KeyError("block")
                                        return
                                    async with rest[0]:
                                        await nest(rest[1:])
                                await nest(cms)

                        t = Task(body(), acct)
                        r = t.step()
                        k = 0
                        while r[0] == "token":
                            k += 1
                            r = t.throw(cancel) if k == j else t.step()
                        res[which] = (log, r[0], type(r[1]).__name__ if r[0] == "raised" else None, r[0] == "raised" and r[1] is cancel)
                    runs += 1
                    if res["stack"] != res["nested"]:
                        cls = "exits-skipped-after-cancel" if len(res["stack"][0]) < len(res["nested"][0]) else "outcome-differs-from-nested-with"
                        out.append((f"C18/ExitStack/{cls}", {"engine": "scenario", "cfg": {"exits": behs, "block_raises": blockraises, "cancel_at": j},
                                                             "expected": res["nested"], "observed": res["stack"]}))
    # the cancellation arrives while a context is still being *entered* (its __aenter__ is suspended): it was
    # never entered, so its exit must not run -- the contexts entered before it are left with that exception
    for nbefore in (0, 1, 2):
        res = {}
        for which in ("stack", "nested"):
            acct = Accounting()
            log = []
            cancel = Cancelled("cancel")

            def mk(e, entering=False, acct=acct, log=log, cancel=cancel):
                class CM:
                    async def __aenter__(self):
                        if entering:
                            await Suspend(acct, ("enter", e))
                        return e

                    async def __aexit__(self, et, ev, tb):
                        log.append((e, "never-entered" if entering else ("cancel" if ev is cancel else "other")))
                        return False
                return CM()

            cms = [mk(e + 1) for e in range(nbefore)] + [mk(nbefore + 1, entering=True)]

            async def body(cms=cms, which=which):
                if which == "stack":
                    async with L.ExitStack() as st:
                        for cm in cms:
                            await st.enter_context(cm)
                else:
                    async def nest(rest):
                        if not rest:
                            return
                        async with rest[0]:
                            await nest(rest[1:])
                    await nest(cms)

            t = Task(body(), acct)
            r = t.step()
            if r[0] == "token":
                r = t.throw(cancel)
            res[which] = (log, r[0], r[0] == "raised" and r[1] is cancel)
        runs += 1
        if res["stack"] != res["nested"]:
            out.append(("C18/ExitStack/exit-of-a-context-cancelled-while-entering",
                        {"engine": "scenario", "cfg": {"entered_before": nbefore}, "expected": res["nested"], "observed": res["stack"]}))
    return out, runs


def groupby_cancel(L):
    """groupby (or one of its groups) is cancelled at every suspension of source or key function;
    the owner then closes the groupby: the source must be closed, the exception unchanged."""
    from .instruments import ClsSource, make_callable  # noqa: PLC0415

    out, runs = [], 0
    for data in ([1, 1, 2], [1, 2, 2, 1], [1]):
        for keyfl in ("none", "asyncdef"):
            for script in (["gb"], ["gb", "grp"], ["gb", "gb"], ["gb", "grp", "gb"]):
                for k in range(1, 9):
                    rec = Recorder()
                    rec.susp = 1
                    src = ClsSource(rec, 1, [Item(1, p + 1, kk) for p, kk in enumerate(data)])
                    key = None if keyfl == "none" else make_callable("asyncdef", rec, "key")
                    gb = L.groupby(src, key)
                    cancel = Cancelled("cancel")
                    grp, n, hit, res = None, 0, False, None
                    for op in script:
                        if op == "grp" and grp is None:
                            break
                        t = Task(gb.__anext__() if op == "gb" else grp.__anext__(), rec.acct)
                        r = t.step()
                        while r[0] == "token":
                            n += 1
                            if n == k:
                                hit = True
                                r = t.throw(cancel)
                            else:
                                r = t.step()
                        if hit:
                            res = r
                            break
                        if r[0] == "done" and op == "gb":
                            grp = r[1][1]
                        elif r[0] == "raised":
                            break
                    if not hit:
                        continue
                    runs += 1
                    d = {"engine": "scenario", "cfg": {"data": data, "key": keyfl, "script": script, "cancel_at": k}}
                    if not (res[0] == "raised" and res[1] is cancel):
                        out.append(("C18/groupby/cancellation-not-propagated", {**d, "observed": repr(res)[:200]}))
                        continue
                    rc = Task(gb.aclose(), rec.acct).run()
                    if rc[0] == "raised":
                        out.append(("C18/groupby/close-after-cancel-raises", {**d, "observed": repr(rc[1])}))
                    elif not src.released:
                        out.append(("C18/groupby/unreleased-source-after-cancel", {**d, "expected": "closed|exhausted", "observed": src.state}))
    return out, runs


def scoped_cancel(L):
    """A tool suspended inside an `async with scoped_iter(...)` block is cancelled."""
    from .instruments import ClsSource  # noqa: PLC0415

    out, runs = [], 0
    for depth in (1, 2):
        for k in range(1, 5):
            rec = Recorder()
            rec.susp = 1
            src = ClsSource(rec, 1, [Item(1, p + 1, 1) for p in range(3)])
            cancel = Cancelled("cancel")

            async def body():
                async with L.scoped_iter(src) as h1:
                    if depth == 2:
                        async with L.scoped_iter(h1) as h2:
                            return await L.list(L.islice(h2, 2)) + await L.list(h2)
                    return await L.list(L.islice(h1, 2)) + await L.list(h1)

            t = Task(body(), rec.acct)
            r = t.step()
            n = 0
            while r[0] == "token":
                n += 1
                r = t.throw(cancel) if n == k else t.step()
            runs += 1
            if n < k:
                continue
            if not (r[0] == "raised" and r[1] is cancel):
                out.append(("C18/scoped_iter/cancellation-not-propagated", {"engine": "scenario", "cfg": {"depth": depth, "cancel_at": k}, "observed": repr(r)}))
            elif src.closes != 1:
                out.append(("C18/scoped_iter/underlying-not-closed-once-after-cancel", {"engine": "scenario", "cfg": {"depth": depth, "cancel_at": k}, "expected": 1, "observed": src.closes}))
    return out, runs


def c18_random(seed_):
    """One random configuration beyond the exhaustive bounds (see checks_tm.random_case), all sources and callables
    suspending once, cancelled at a random one of its suspensions; judged like the enumerated cases."""
    from .checks_tm import random_case  # noqa: PLC0415
    from .driver import Hang, guarded  # noqa: PLC0415

    rnd = random.Random(seed_)
    case = random_case(rnd, False, agg=rnd.random() < 0.3)
    case["nnext"] = max(1, case["nnext"])
    L = tm.load_lib()
    tool = case["cfg"]["tool"]
    out = []
    try:
        def go():
            fl = {"src": rnd.choice(["cls", "agen", "clstruthy"]), "call": "asyncdef"}
            base = tm.execute(case, L, flav=fl, susp=1)
            if base.nsusp == 0:
                return 1
            k = rnd.randint(1, base.nsusp)
            o = tm.execute(case, L, flav=fl, susp=1, cancel_at=k)
            d = {"engine": "toolmachine", "mode": "random", "cfg": case["cfg"], "nnext": case["nnext"], "flavour": fl["src"], "cancel_at_suspension": k, "of": base.nsusp}
            if o.ending != "cancel" or o.exc_same is not True:
                how = "swallowed" if o.exc_type is None else "replaced" if o.ending == "cancel" else "lost"
                out.append((f"C18/{tool}/cancellation-{how}", {**d, "observed": {"ending": o.ending, "type": o.exc_type, "same": o.exc_same}}))
                return 2
            bad = sorted(i for i, r in o.released.items() if not r)
            if tool == "chain" and case["cfg"]["par"].get("outer"):
                fetched = sum(1 for e in o.log if e["ev"] == "pull" and e["src"] == 0 and e["res"] == "item")
                bad = [i for i in bad if i == 0 or i <= fetched]
            if bad and tool != "anext":
                who = "unstarted-source" if all(o.states.get(i) == "new" for i in bad) else "source"
                during = "+cancelled-inside-the-close-of-another-source" if (o.cancel_tag and o.cancel_tag[0] and o.cancel_tag[0][0] == "aclose") else ""
                out.append((f"C18/{tool}/unreleased-{who}-after-cancel{during}", {**d, "observed": o.states, "cancelled_at_token": o.cancel_tag}))
            return 2
        n = guarded(30.0)(go)()
    except Hang:
        out.append((f"C18/{tool}/operation-never-returns", {"engine": "toolmachine", "mode": "random", "cfg": case["cfg"]}))
        n = 1
    return out, n


def check_c18(prop, tier, seed):
    v = Verdict(prop, tier, seed)
    cases, stats = generate(tier, ITER_TOOLS + AGG_TOOLS + ["anext"], faults=False, prefixes=True)
    cases = [c for c in cases if c["nnext"] >= 1 and any(e["ev"] in ("pull", "call") for e in c["log"])]
    rnd = random.Random(seed)
    cap = 2500 if tier == "quick" else 40000
    chosen = stratified(rnd, cases, cap)
    runs = 0
    with _pool() as pool:
        for out, n in pool.imap_unordered(c18_case, chosen, chunksize=max(1, len(chosen) // 256)):
            runs += n
            for sig, d in out:
                v.violation(sig, d)
    # beyond the bounds: longer inputs, more sources, larger parameters (random), cancelled at a random suspension
    nrand = 600 if tier == "quick" else 12000
    with _pool() as pool:
        for out, n in pool.imap_unordered(c18_random, [(seed * 40503 + i) % (2 ** 31) for i in range(nrand)], chunksize=16):
            runs += n
            for sig, d in out:
                v.violation(sig, d)
    L = tm.load_lib()
    for fn in (exitstack_cancel, scoped_cancel, groupby_cancel):
        out, n = fn(L)
        runs += n
        for sig, d in out:
            v.violation(sig, d)
    from . import eng_cprop, eng_lruconc, eng_tee  # noqa: PLC0415

    def cancel_only(sig, d):
        # what goes wrong after somebody was cancelled belongs here, whatever else the history contains
        cancelled = any(isinstance(a, list) and a and a[0] == "cancel" for a in (d.get("path") or []))
        if sig.endswith("+unstarted-close"):
            return None      # the leak of a never-advanced child closed on its own happens with or without a cancellation (C09/C04)
        return ("C18/" + sig.split("/", 1)[1]) if ("cancel" in sig or cancelled) else None

    sub = {}
    for name, eng, p_ in (("tee", eng_tee, "C09"), ("lruconc", eng_lruconc, "C11"), ("cprop", eng_cprop, "C12")):
        sv = SubVerdict(v, cancel_only, name)
        eng.check(p_, "mini" if name in ("tee", "lruconc", "cprop") else "quick", seed, into=sv)
        sub[name] = {k: sv.coverage_out.get(k) for k in ("states", "transitions", "traces_validated_against_impl") if sv.coverage_out}
    for c in chosen[:3]:
        v.sample({"cfg": c["cfg"], "nnext": c["nnext"], "cancel": "at every suspension 1..N"})
    v.assumptions += ["cancellation = a BaseException thrown into the suspended operation; afterwards the owner closes the library iterator it was advancing",
                      "class-based sources survive the thrown exception, async generators are finished by it (Python's rule)"]
    return v.finish({
        "states": stats["states"], "transitions": stats["transitions"], "traces_validated_against_impl": runs,
        "cases": len(chosen), "cases_available": len(cases), "sub_engines": sub,
        "evaluations": runs, "distinct_nontrivial": len(chosen), "exhaustive": len(chosen) == len(cases),
        "rule": "every ToolMachine case with at least one use, every suspension point 1..N of its execution (sources and callables suspend once each), class-based and async-generator sources",
        "checker_cmd": "tlc spec/ToolMachine.tla ; Tee/LruConc/CachedProp Cancel actions via their engines",
    })


# =========================================================================== C20

STREAM_TOOLS = {
    # tool: (params, window parameter)
    "zip": ({"strict": False}, 0), "map": ({"z": 0}, 0), "filter": ({"pred": True}, 0), "filterfalse": ({"pred": True}, 0),
    "enumerate": ({"start": 0}, 0), "accumulate": ({"init": False, "fn": "func"}, 0), "batched": ({"n": 4, "strict": False}, 4),
    "chain": ({"outer": False}, 0), "compress": ({"z": 0}, 0), "dropwhile": ({"z": 0}, 0), "takewhile": ({"z": 0}, 0),
    "islice": ({"start": 25, "stop": -1, "step": 3}, 0), "pairwise": ({"z": 0}, 0), "starmap": ({"z": 0}, 0), "zip_longest": ({"fill": "fresh"}, 0),
    "merge": ({"key": True, "rev": False}, 0),
    "all": ({"z": 0}, 0), "any": ({"z": 0}, 0), "sum": ({"startv": "zero"}, 0), "min": ({"key": True, "kf": "key", "dflt": "no"}, 0), "max": ({"key": False, "kf": "key", "dflt": "no"}, 0),
    "reduce": ({"init": True}, 0), "nlargest": ({"key": True, "n": 5}, 5), "nsmallest": ({"key": False, "n": 5}, 5),
}
BIG_N = 1000   # nlargest/nsmallest with a large n on a stream twice as long: the window is n, not the stream
NSRC = {"zip": 2, "map": 2, "compress": 2, "zip_longest": 2, "merge": 3, "chain": 2}


import operator  # noqa: E402

# the same tools with argument *kinds* a fast path might single out: a float start value, C-level reducers
# and key functions.  name -> (tool whose window applies, call)
VARIANTS = {
    "sum#float-start": ("sum", lambda L, S: L.sum(S[0], 0.0)),
    "sum#no-start": ("sum", lambda L, S: L.sum(S[0])),
    "reduce#builtin-max": ("reduce", lambda L, S: L.reduce(max, S[0])),
    "reduce#operator-add": ("reduce", lambda L, S: L.reduce(operator.add, S[0])),
    "max#attrgetter-key": ("max", lambda L, S: L.max(S[0], key=operator.attrgetter("k"))),
    "map#builtin-function": ("map", lambda L, S: L.map(max, S[0], S[1])),
    "filter#builtin-bool": ("filter", lambda L, S: L.filter(bool, S[0])),
    "accumulate#operator-add": ("accumulate", lambda L, S: L.accumulate(S[0], operator.add)),
    "islice#open-ended-big-step": ("islice", lambda L, S: L.islice(S[0], 0, None, 40)),
    "islice#big-step": ("islice", lambda L, S: L.islice(S[0], 0, 10 ** 6, 40)),
    "islice#definite-stop": ("islice", lambda L, S: L.islice(S[0], 0, 10 ** 6)),
    "islice#start-and-stop": ("islice", lambda L, S: L.islice(S[0], 3, 10 ** 6, 2)),
    "merge#sync-generators": ("merge", lambda L, S: L.merge(*[sync_gen(x) for x in S], key=lambda x: x.k)),
    "zip#sync-generators": ("zip", lambda L, S: L.zip(*[sync_gen(x) for x in S])),
    "accumulate#sync-generator": ("accumulate", lambda L, S: L.accumulate(sync_gen(S[0]), lambda a, b: None)),
    "batched#threes": ("batched", lambda L, S: L.batched(S[0], 3)),
    "nlargest#ascending": ("nlargest", lambda L, S: L.nlargest(S[0], 5, key=lambda x: x.p)),
    "nsmallest#descending": ("nsmallest", lambda L, S: L.nsmallest(S[0], 5, key=lambda x: -x.p)),
}


class WItem(Item):
    """An item whose sums keep nothing of it."""

    __slots__ = ()

    def __add__(self, o):
        return self.k + (o.k if isinstance(o, Item) else o)

    def __radd__(self, o):
        return self.k + (o.k if isinstance(o, Item) else o)


class ForgetfulSource:
    """Class-based async iterator that keeps no reference to what it has handed out."""

    def __init__(self, items, hook):
        self.items, self.pos, self.hook = items, 0, hook

    def __aiter__(self):
        return self

    async def __anext__(self):
        if self.pos >= len(self.items):
            raise StopAsyncIteration
        x = self.items[self.pos]
        self.items[self.pos] = None
        self.pos += 1
        self.hook(x)
        return x

    async def aclose(self):
        self.items = []

    def take(self):
        x = self.items[self.pos]
        self.items[self.pos] = None
        self.pos += 1
        self.hook(x)
        return x


def sync_gen(src):
    """The same stream as a lazy synchronous generator (a regular iterable that is no sequence): nothing but the item
    just handed out has left it."""
    while src.pos < len(src.items):
        yield src.take()


def c20_run(args):
    tool, n, every = args
    L = tm.load_lib()
    variant = None
    if tool.endswith("#big"):
        par, win = ({"key": tool.startswith("nlargest"), "n": BIG_N}, BIG_N)
        tool = tool.split("#")[0]
    elif tool in VARIANTS:
        variant = tool
        tool = VARIANTS[variant][0]
        par, win = STREAM_TOOLS[tool]
    else:
        par, win = STREAM_TOOLS[tool]
    nsrc = NSRC.get(tool, 1)
    truth = {"filter": 1, "filterfalse": 0, "dropwhile": 0, "takewhile": 1, "all": 1, "any": 0, "compress": 1}.get(tool, 1)
    varied = tool in ("merge", "min", "max", "nlargest", "nsmallest")
    refs, census, passed = [], [], [0]
    is_agg = tool in tm.AGGREGATIONS
    acct = Accounting()

    def do_census():
        gc.collect()
        drain_asyncgens(acct)
        gc.collect()
        census.append({"passed": passed[0], "alive": sum(1 for r in refs if r() is not None)})

    def hook(x):
        refs.append(weakref.ref(x[0] if isinstance(x, tuple) else x))   # only what has left the source counts
        passed[0] += 1
        if is_agg and passed[0] % every == 0:
            do_census()      # an aggregation has no consumer steps: look from inside the source

    S = []
    for i in range(1, nsrc + 1):
        keys = [((p * 3 + i) % 7) + 1 if varied else truth for p in range(n)]
        if tool == "merge":
            keys.sort()
        items = [WItem(i, p + 1, k) for p, k in enumerate(keys)]
        S.append(ForgetfulSource([(x, x) for x in items] if tool == "starmap" else items, hook))
        del items
    fns = {"func": lambda *a: None, "key": lambda x: x.k, "pred": lambda x: x.k != 0}
    rec = Recorder()
    thunk = tm.build_call(L, tool, par, S, lambda name: fns[name], rec)
    if variant:
        thunk = lambda: VARIANTS[variant][1](L, S)  # noqa: E731
    if is_agg:
        Task(thunk(), acct).run()
        do_census()
    else:
        it = thunk()
        if not hasattr(it, "__anext__"):
            it = it.__aiter__()
        k = 0
        while True:
            r = Task(it.__anext__(), acct).run()
            done = r[0] != "done"
            del r
            if done:
                break
            k += 1
            if k % every == 0:
                do_census()
        do_census()
    return {"cfg": {"tool": tool, "param": win, "nsrc": nsrc, "n": n, "variant": variant or ""}, "ev": census}


def groupby_retention(args):
    """Many short groups, each consumed and dropped: groupby may hold the look-ahead item only."""
    n, keyfl = args
    L = tm.load_lib()
    refs, census, passed = [], [], [0]

    def hook(x):
        refs.append(weakref.ref(x))
        passed[0] += 1

    items = [WItem(1, p + 1, (p // 2) % 2 + 1) for p in range(n)]
    src = ForgetfulSource(items, hook)
    del items
    gb = L.groupby(src) if keyfl == "none" else L.groupby(src, lambda x: x.k)
    acct = Accounting()
    while True:
        r = Task(gb.__anext__(), acct).run()
        if r[0] != "done":
            break
        grp = r[1][1]
        del r
        while True:
            r2 = Task(grp.__anext__(), acct).run()
            stop = r2[0] != "done"
            del r2
            if stop:
                break
        del grp
        gc.collect()
        census.append({"passed": passed[0], "alive": sum(1 for w in refs if w() is not None)})
    return {"cfg": {"tool": "groupby", "param": 1, "nsrc": 1, "n": n}, "ev": census}


def from_iterable_retention(n):
    """chain.from_iterable over a long stream of one-item iterators: the inner iterators are the
    outer source's items -- a finished one must not stay alive."""
    L = tm.load_lib()
    refs, census = [], []

    class Inner:
        def __init__(self, x):
            self.x, self.done = x, False

        def __aiter__(self):
            return self

        async def __anext__(self):
            if self.done:
                raise StopAsyncIteration
            self.done = True
            return self.x

        async def aclose(self):
            self.done = True

    def outer():
        for p in range(n):
            it = Inner(p)
            refs.append(weakref.ref(it))
            yield it

    ch = L.chain.from_iterable(outer())
    acct = Accounting()
    k = 0
    while True:
        r = Task(ch.__anext__(), acct).run()
        stop = r[0] != "done"
        del r
        if stop:
            break
        k += 1
        gc.collect()
        census.append({"passed": k, "alive": sum(1 for w in refs if w() is not None)})
    return {"cfg": {"tool": "chain.from_iterable", "param": 0, "nsrc": 1, "n": n}, "ev": census}


def check_c20(prop, tier, seed):
    v = Verdict(prop, tier, seed)
    sizes = [50] if tier == "quick" else [50, 200, 1000, 2000]
    jobs = []
    for n in sizes:
        every = 1 if n <= 50 else max(1, n // 100)
        for tool in [t for t in STREAM_TOOLS if "#" not in t]:
            jobs.append((tool, n, every))
    STREAM_TOOLS["nlargest#big"] = ({"key": True, "n": BIG_N}, BIG_N)
    STREAM_TOOLS["nsmallest#big"] = ({"key": False, "n": BIG_N}, BIG_N)
    jobs += [("nlargest#big", 2 * BIG_N, 250), ("nsmallest#big", 2 * BIG_N, 250)]
    jobs += [(name, n, 1 if n <= 50 else max(1, n // 100)) for name in VARIANTS for n in sizes]
    with _pool() as pool:
        traces = pool.map(c20_run, jobs, chunksize=1)
        traces += pool.map(groupby_retention, [(n, kf) for n in sizes for kf in ("none", "def")], chunksize=1)
        traces += pool.map(from_iterable_retention, sizes, chunksize=1)
    rejected, st = validate("RetentionObs", traces)
    for idx, matched in sorted(rejected.items()):
        tr = traces[idx]
        v.violation(f"C20/{tr['cfg']['tool']}/retention-grows-or-exceeds-window" + (f"+{tr['cfg']['variant'].split('#')[1]}" if tr["cfg"].get("variant") else ""),
                    {"engine": "retention", "spec": "RetentionObs", "cfg": tr["cfg"], "step": matched,
                     "matched_prefix": tr["ev"][max(0, matched - 3): matched], "rejected_event": tr["ev"][matched] if matched < len(tr["ev"]) else None})
    # tee: the window is the lead of the fastest over the slowest live child (TeeObs census)
    from . import eng_tee  # noqa: PLC0415

    def census_only(sig, d):
        return ("C20/" + sig.split("/", 1)[1]) if "census" in sig else None

    sv = SubVerdict(v, census_only, "tee")
    eng_tee.check("C09", "quick" if tier == "quick" else "mini", seed, into=sv)    # three children, closes and cancellations
    for t in traces[:3]:
        v.sample({"cfg": t["cfg"], "censuses": t["ev"][:4] + t["ev"][-2:]})
    v.assumptions += ["CPython reference counting + gc.collect(): an item is retained iff a weak reference to it is alive after collection",
                      "slack of 2 per source + 2 (a frame may pin the item it handled last); user callables of the harness keep nothing",
                      "tools documented to accumulate (cycle, lagging tee children, sorted, list/tuple/set/dict) are exempt"]
    known = {k: 1 for k in v.known_hits}
    del known
    return v.finish({
        "states": st["states"], "transitions": st["transitions"], "traces_validated_against_impl": st["traces"],
        "trace_validation": st, "stream_lengths": sizes, "tools": sorted(STREAM_TOOLS), "censuses": sum(len(t["ev"]) for t in traces),
        "tee": sv.coverage_out and {k: sv.coverage_out.get(k) for k in ("states", "transitions", "traces_validated_by_TLC_against_TeeObs")},
        "evaluations": len(traces), "distinct_nontrivial": len(traces), "exhaustive": False,
        "rule": "one long stream per streaming tool / single-pass aggregation and stream length; censuses after consumer steps (every step up to 50 items)",
        "checker_cmd": "tlc -workers 1 spec/RetentionObs.tla (TRACE_FILE=...) ; TeeObs census via the Tee engine",
    })


def check(prop, tier, seed):
    return {"C03": check_c03, "C17": check_c17, "C18": check_c18, "C20": check_c20}[prop](prop, tier, seed)
