"""GroupBy engine (C16; groupby clauses of C04/C05/C06).

spec -> code : every transition of spec/GroupBy.tla (all data within bounds x all orders of
               advancing the groupby iterator and any group it returned) is replayed into
               asyncstdlib.groupby and itertools.groupby; keys, items (by identity), stops,
               pulls and key calls are compared with the model after every operation.
code -> spec : random longer inputs/histories are recorded and validated by TLC against the same
               specification (GroupByTrace).
Fault sweep  : every history is re-run with a source/key failure at every use (C06) and with
               aclose at the end (C04), against itertools.groupby as twin.
"""
from __future__ import annotations

import itertools
import multiprocessing as mp
import os
import random

from . import tm
from .driver import Accounting, Task
from .graph import build_paths
from .instruments import ClsSource, ClsSourceNoClose, InjectedError, InjectedTypeError, Item, Recorder, SyncIterSource, make_callable
from .report import Verdict
from .tlc import MachineryError, read_ndjson, run_tlc
from .tracecheck import validate


class InjectedAttributeError(AttributeError):
    pass


KEY_FLAVOURS = ("none", "def", "asyncdef", "nonekey", "alleq", "aw")


class EqItem(Item):
    """Items that all compare equal (like 1, 1.0, True): only the key function tells them apart."""

    __slots__ = ()

    def __eq__(self, o):
        return isinstance(o, Item)

    def __ne__(self, o):
        return not isinstance(o, Item)

    def __hash__(self):
        return 1


def _nonekey(x):
    """A key function whose value for the first key class is None."""
    return None if x.k == 1 else x.k


class GBSys:
    def __init__(self, data, keyfl, sync=False, fault=None, fault_cls=InjectedError, noclose=False):
        self.rec = Recorder()
        self.rec.fault = fault
        if fault:
            self.rec.fault_exc = fault_cls("injected")
        self.sync = sync
        items = [(EqItem if keyfl == "alleq" else Item)(1, p + 1, k) for p, k in enumerate(data)]
        if keyfl == "alleq":
            keyfl = "def"
        # with a key function the second item is the object None (its key is what the data says): an item like any other
        self.none_key = None
        if keyfl in ("def", "asyncdef", "aw") and len(items) >= 2:
            self.none_key = data[1]
            items[1] = None
        if sync:
            self.src = SyncIterSource(self.rec, 1, items)
            key = None if keyfl == "none" else make_callable("def", self.rec, "key", sem=_nonekey if keyfl == "nonekey" else self._sem())
            self.gb = itertools.groupby(self.src, key)
        else:
            L = tm.load_lib()
            self.src = (ClsSourceNoClose if noclose else ClsSource)(self.rec, 1, items)
            key = None if keyfl == "none" else make_callable("asyncdef" if keyfl == "nonekey" else keyfl, self.rec, "key",
                                                             sem=_nonekey if keyfl == "nonekey" else self._sem())
            self.gb = L.groupby(self.src, key)
        self.groups = []
        self.dead = False

    def _sem(self):
        nk = self.none_key
        if nk is None:
            return None
        return lambda x: nk if x is None else x.k

    def _run(self, aw_or_fn):
        if self.sync:
            try:
                return ("done", aw_or_fn())
            except StopIteration as e:
                return ("raised", e)
            except BaseException as e:  # noqa: BLE001
                return ("raised", e)
        r = Task(aw_or_fn(), self.rec.acct).run()
        return r

    def op(self, what, g=0):
        """Return a comparable result tuple."""
        if what == "gb":
            r = self._run((lambda: next(self.gb)) if self.sync else (lambda: self.gb.__anext__()))
            if r[0] == "done":
                k, grp = r[1]
                self.groups.append(grp)
                # whatever else comes back as a key (it happens with a broken groupby) is an observation, not a crash
                return ("group", k.k if isinstance(k, Item) else 1 if k is None else k if isinstance(k, int) else -1, 0)
        elif what == "close":
            if g > len(self.groups):
                return ("nogroup", 0, 0)
            if self.sync:
                # a synchronous group cannot be closed; what closing means is fixed by the specification:
                # the group yields nothing more.  The twin keeps standing in for everything else.
                return ("closed", 0, 0)        # only stale groups are closed (see GroupBy.tla): nothing to emulate
            r = Task(self.groups[g - 1].aclose(), self.rec.acct).run()
            return ("closed", 0, 0) if r[0] == "done" else ("raise:" + type(r[1]).__name__, 0, 0)
        else:
            if g > len(self.groups):
                return ("nogroup", 0, 0)
            grp = self.groups[g - 1]
            r = self._run((lambda: next(grp)) if self.sync else (lambda: grp.__anext__()))
            if r[0] == "done":
                x = r[1]
                if x is None and self.none_key is not None:
                    return ("item", self.none_key, 2)
                return ("item", x.k, x.p) if isinstance(x, Item) else ("item", -1, -1)
        exc = r[1]
        if isinstance(exc, (StopIteration, StopAsyncIteration)):
            return ("stop", 0, 0)
        if exc is self.rec.fault_exc:
            return ("fault", 0, 0)
        return ("raise:" + type(exc).__name__, 0, 0)

    def counts(self):
        log = self.rec.log
        return {"pos": sum(1 for e in log if e["ev"] == "pull" and e["res"] == "item"),
                "st": sum(1 for e in log if e["ev"] == "pull" and e["res"] == "stop"),
                "keys": sum(1 for e in log if e["ev"] == "call")}

    def close(self):
        if self.sync:
            return None
        r = Task(self.gb.aclose(), self.rec.acct).run()
        return None if r[0] == "done" else r[1]


def cfg_text(maxlen, keys, maxstops, edges=True):
    return f"""CONSTANTS
  MaxLen = {maxlen}
  Keys = {{{", ".join(map(str, keys))}}}
  MaxStops = {maxstops}
  EdgeFile = "{'@OUT:edges.ndjson@' if edges else ''}"
INIT Init
NEXT Next
VIEW View
CHECK_DEADLOCK FALSE
INVARIANT MaximalRuns
INVARIANT ItemInRun
INVARIANT GroupAtRunStart
INVARIANT Lazy
""" + ("ACTION_CONSTRAINT EmitEdge\n" if edges else "")


TIERS = {"quick": [(5, [1, 2], 2), (4, [1, 2, 3], 2)], "thorough": [(6, [1, 2], 2), (5, [1, 2, 3], 2)]}


def history_of(path):
    return [(e["a"][0], e["a"][1]) for e in path]


def replay_path(args):
    path, keyfl, props = args
    data = list(path[-1]["f"]["d"])
    real = GBSys(data, keyfl)
    twin = GBSys(data, keyfl, sync=True)
    out = []

    def bad(prop, cls, step, detail):
        out.append((prop, f"{prop}/groupby/{cls}", {"engine": "groupby", "spec": "GroupBy", "cfg": {"data": data, "key": keyfl},
                                                   "path": history_of(path), "step": step, **detail}))

    for j, e in enumerate(path):
        op, g, kind, key, idx = e["a"]
        exp = (kind, key, 0) if kind == "group" else (kind, key, idx) if kind == "item" else ("closed", 0, 0) if kind == "closed" else ("stop", 0, 0)
        r1 = real.op(op, g)
        r2 = twin.op(op, g)
        if r2 != exp:
            raise MachineryError(f"GroupBy spec disagrees with itertools.groupby: data={data} history={history_of(path)[: j + 1]} expected={exp} twin={r2}")
        if r1 != exp:
            cls = "stale-group-yields" if exp[0] == "stop" and r1[0] == "item" else f"{r1[0]}-instead-of-{exp[0]}" if r1[0] != exp[0] else \
                  ("wrong-key" if exp[0] == "group" else "wrong-item")
            bad("C16", cls, j, {"expected": exp, "observed": r1, "op": [op, g]})
            break
        c1, c2 = real.counts(), twin.counts()
        expc = {"pos": e["t"]["pos"], "st": e["t"]["st"]}
        if {k: c2[k] for k in expc} != expc:
            raise MachineryError(f"GroupBy spec pull count disagrees with itertools: data={data} history={history_of(path)[: j + 1]} expected={expc} twin={c2}")
        if {k: c1[k] for k in expc} != expc or (keyfl != "none" and c1["keys"] != c2["keys"]):
            cls = "extra-pull" if c1["pos"] + c1["st"] > expc["pos"] + expc["st"] else "missing-pull" if c1["pos"] + c1["st"] < expc["pos"] + expc["st"] else "key-calls-differ"
            bad("C05", cls, j, {"expected": {**expc, "keys": c2["keys"]}, "observed": c1, "op": [op, g]})
            break
    # drain: what the path left behind must still behave -- the newest group to its end, then the groupby,
    # and so on until the input is used up (the twin stands for the specification, as checked above)
    if not out:
        for _ in range(2 * len(data) + 4):
            g = len(real.groups)
            if g:
                r1, r2 = real.op("grp", g), twin.op("grp", g)
                if r1 == r2 and r1[0] == "item":
                    continue
            else:
                r1 = r2 = None
            if r1 == r2:
                r1, r2 = real.op("gb", 0), twin.op("gb", 0)
            if r1 != r2:
                cls = "live-group-ends-early" if r2[0] == "item" and r1[0] == "stop" else f"{r1[0]}-instead-of-{r2[0]}"
                bad("C16", cls + "+after-the-history", len(path), {"expected": r2, "observed": r1})
                break
            if r1[0] == "stop":
                break
    if not real.rec.acct.ok():
        bad("C17", "foreign-suspension", len(path), {"acct": real.rec.acct.describe()})
    # C04: closing the handle (even if never advanced) closes the source and never fails
    if not out and "C05" in props and any(o == "gb" for o, _ in history_of(path)):
        # closing a group -- live or stale -- is no reason to read on: the source is not advanced by it
        fresh = GBSys(data, keyfl)
        for op, g, *_ in (e["a"] for e in path):
            fresh.op(op, g)
        before = fresh.counts()
        r = Task(fresh.groups[-1].aclose(), fresh.rec.acct).run() if fresh.groups else ("done", None)
        if r[0] == "raised":
            bad("C05", "closing-a-group-raises", len(path), {"observed": repr(r[1])})
        elif fresh.counts() != before:
            bad("C05", "closing-a-group-advances-the-source", len(path), {"expected": before, "observed": fresh.counts()})
    if not out and "C16" in props and any(o == "gb" for o, _ in history_of(path)):
        # Whatever closing the newest group does to that group, the groupby goes on as itertools.groupby does when
        # the group is simply left alone: the rest of its run is skipped, later groups are the later runs -- and the
        # closed group, stale by then, yields nothing.
        fresh, twin2 = GBSys(data, keyfl), GBSys(data, keyfl, sync=True)
        for op, g, *_ in (e["a"] for e in path):
            fresh.op(op, g)
            twin2.op(op, g)
        if fresh.groups:
            closed = len(fresh.groups)
            Task(fresh.groups[-1].aclose(), fresh.rec.acct).run()
            moved = False
            for _ in range(len(data) + 2):
                r1, r2 = fresh.op("gb", 0), twin2.op("gb", 0)
                if r1 != r2:
                    bad("C16", f"{r1[0]}-instead-of-{r2[0]}+after-closing-a-group", len(path), {"expected": r2, "observed": r1})
                    break
                moved = moved or r1[0] == "group"
                if r1[0] != "group":
                    break
            if not out and moved:
                r1 = fresh.op("grp", closed)
                if r1[0] != "stop":
                    bad("C16", "stale-group-yields+after-closing-it", len(path), {"expected": ["stop", 0, 0], "observed": r1})
    if not out and "C16" in props and any(o == "gb" for o, _ in history_of(path)):
        # A group stays what it is when the groupby object it came from is dropped (a temporary expression, `del`): an
        # itertools group keeps its parent alive and yields the rest of its run.
        fresh, twin2 = GBSys(data, keyfl), GBSys(data, keyfl, sync=True)
        for op, g, *_ in (e["a"] for e in path):
            fresh.op(op, g)
            twin2.op(op, g)
        if fresh.groups and len(fresh.groups) == len(twin2.groups):
            fresh.gb = twin2.gb = None      # (reference counting frees it at once; no collection needed)
            newest = len(fresh.groups)
            for _ in range(len(data) + 2):
                r1, r2 = fresh.op("grp", newest), twin2.op("grp", newest)
                if r1 != r2:
                    bad("C16", f"{r1[0]}-instead-of-{r2[0]}+after-dropping-the-groupby-object", len(path), {"expected": r2, "observed": r1})
                    break
                if r1[0] != "item":
                    break
    if not out and "C04" in props and any(o == "gb" for o, _ in history_of(path)):
        # the newest group closed first, then the groupby: the source is closed all the same
        fresh = GBSys(data, keyfl)
        for op, g, *_ in (e["a"] for e in path):
            fresh.op(op, g)
        if fresh.groups:
            Task(fresh.groups[-1].aclose(), fresh.rec.acct).run()
            err = fresh.close()
            if err is not None:
                bad("C04", "close-raises+after-closing-a-group", len(path), {"expected": None, "observed": repr(err)})
            elif not fresh.src.released:
                bad("C04", "unreleased-source-after-close+after-closing-a-group", len(path), {"expected": "closed", "observed": fresh.src.state})
    if not out and "C04" in props:
        # on a fresh replay of the same history (the drain above has used the first one up): closed where it stands
        for noclose in (False, True):
            fresh = GBSys(data, keyfl, noclose=noclose)
            for op, g, *_ in (e["a"] for e in path):
                fresh.op(op, g)
            err = fresh.close()
            how = ("-unstarted" if not any(o == "gb" for o, _ in history_of(path)) else "") + ("+source-without-aclose" if noclose else "")
            if err is not None:
                bad("C04", "close-raises" + how, len(path), {"expected": None, "observed": repr(err)})
                break
            if not noclose and not fresh.src.released:
                bad("C04", "unreleased-source-after-close", len(path), {"expected": "closed|exhausted", "observed": fresh.src.state})
                break
    return out


def fault_sweep(args):
    """C06 for groupby: a failure at every use of every history, against the twin."""
    path, keyfl = args
    data = list(path[-1]["f"]["d"])
    hist = history_of(path)
    probe = GBSys(data, keyfl, sync=True)
    for op, g in hist:
        probe.op(op, g)
    uses = [("pull", 1, n) for n in range(1, probe.counts()["pos"] + probe.counts()["st"] + 1)]
    uses += [("call", "key", n) for n in range(1, probe.counts()["keys"] + 1)]
    out = []
    n = 0
    for fault in uses:
        for cls in (InjectedError, InjectedAttributeError):
            real = GBSys(data, keyfl, fault=fault, fault_cls=cls)
            twin = GBSys(data, keyfl, sync=True, fault=fault, fault_cls=cls)
            n += 1
            for j, (op, g) in enumerate(hist + [("gb", 0)]):
                r1, r2 = real.op(op, g), twin.op(op, g)
                if r1 != r2:
                    how = "swallowed" if r2[0] == "fault" and r1[0] != "fault" and not r1[0].startswith("raise") else \
                          "replaced" if r2[0] == "fault" else f"{r1[0]}-instead-of-{r2[0]}"
                    out.append(("C06", f"C06/groupby/exception-{how}" if r2[0] == "fault" else f"C06/groupby/after-failure-{how}",
                                {"engine": "groupby", "cfg": {"data": data, "key": keyfl}, "path": hist, "fault": list(fault),
                                 "fault_kind": cls.__name__, "step": j, "expected": r2, "observed": r1}))
                    break
                if real.rec.fault_fired and real.counts() != twin.counts():
                    out.append(("C06", "C06/groupby/use-after-failure",
                                {"engine": "groupby", "cfg": {"data": data, "key": keyfl}, "path": hist, "fault": list(fault),
                                 "fault_kind": cls.__name__, "step": j, "expected": twin.counts(), "observed": real.counts()}))
                    break
    return out, n


def random_history(args):
    seed, n, nkeys, keyfl = args
    rnd = random.Random(seed)
    data = [rnd.randint(1, nkeys) for _ in range(n)]
    real = GBSys(data, keyfl)
    twin = GBSys(data, keyfl, sync=True)
    ev, viol = [], []
    stops = 0
    for j in range(rnd.randint(5, 25)):
        x = rnd.random()
        if len(real.groups) >= 2 and x < 0.1:
            op, g = "close", rnd.randint(max(1, len(real.groups) - 3), len(real.groups) - 1)     # a group that is stale for sure
        elif real.groups and x < 0.7:
            op, g = "grp", rnd.randint(max(1, len(real.groups) - 2), len(real.groups))
        else:
            op, g = "gb", 0
        r1, r2 = real.op(op, g), twin.op(op, g)
        c = real.counts()
        ev.append({"op": op, "g": g, "kind": r1[0], "key": r1[1], "idx": r1[2], "pos": c["pos"], "st": c["st"]})
        if r1 != r2 or real.counts() != twin.counts():
            viol.append(("C16", "C16/groupby/history-differs-from-itertools",
                         {"engine": "groupby", "mode": "random", "seed": seed, "cfg": {"data": data, "key": keyfl}, "step": j,
                          "expected": [r2, twin.counts()], "observed": [r1, real.counts()]}))
            break
        if c["st"] >= 2:
            break
    return {"cfg": {"data": data, "key": keyfl}, "ev": ev, "viol": viol}


def collect(tier, props):
    """Run the groupby engine; return (violations, counters, samples)."""
    viol, tot, samples = [], {"states": 0, "transitions": 0, "paths": 0, "replays": 0, "fault_runs": 0}, []
    for (maxlen, keys, maxstops) in TIERS[tier]:
        res = run_tlc("GroupBy", cfg_text(maxlen, keys, maxstops), outfiles=["edges.ndjson"], timeout=3000)
        tot["states"] += res["distinct"]
        tot["transitions"] += res["generated"]
        edges = read_ndjson(res["files"]["edges.ndjson"])
        by_data = {}
        for e in edges:
            by_data.setdefault(tuple(e["f"]["d"]), []).append(e)
        paths = []
        for d, es in by_data.items():
            paths += build_paths(es, lambda f: f["pos"] == 0 and f["st"] == 0 and f["ng"] == 0 and f["ci"] == 0)
        tot["paths"] += len(paths)
        jobs = [(p, kf, props) for p in paths for kf in KEY_FLAVOURS]
        with mp.Pool(min(16, os.cpu_count() or 4)) as pool:
            for out in pool.imap_unordered(replay_path, jobs, chunksize=max(1, len(jobs) // 128)):
                viol += out
            tot["replays"] += len(jobs)
            if "C06" in props:
                fj = [(p, kf) for p in paths for kf in ("none", "asyncdef")]  # (nonekey is a result matter, not a failure matter)
                for out, n in pool.imap_unordered(fault_sweep, fj, chunksize=max(1, len(fj) // 128)):
                    viol += out
                    tot["fault_runs"] += n
        if paths:
            mid = paths[len(paths) // 2]
            samples.append({"data": list(mid[-1]["f"]["d"]), "history": [e["a"] for e in mid]})
    return viol, tot, samples


def check(prop, tier, seed, into=None):
    v = into or Verdict(prop, tier, seed)
    viol, tot, samples = collect(tier, ["C16"])
    for p, sig, d in viol:
        if p == "C16":
            v.violation(sig, d)
    rnd = random.Random(seed)
    nh = 300 if tier == "quick" else 5000
    hs = [random_history((seed * 31337 + i, rnd.randint(5, 10), rnd.choice([2, 3, 4]), rnd.choice(KEY_FLAVOURS))) for i in range(nh)]
    for h in hs:
        for p, sig, d in h["viol"]:
            v.violation(sig, d)
    rejected, st = validate("GroupByTrace", [{"cfg": h["cfg"], "ev": h["ev"]} for h in hs], spec="Spec2",
                            extra_cfg="CONSTANTS\n  MaxLen = 12\n  Keys = {1, 2, 3, 4}\n  MaxStops = 100\n  EdgeFile = \"\"\n")
    for idx, matched in rejected.items():
        h = hs[idx]
        v.violation(f"C16/groupby/trace-rejected-at-{h['ev'][matched]['op'] if matched < len(h['ev']) else 'end'}",
                    {"engine": "groupby", "mode": "trace", "spec": "GroupByTrace", "cfg": h["cfg"], "step": matched,
                     "matched_prefix": h["ev"][max(0, matched - 5): matched], "rejected_event": h["ev"][matched] if matched < len(h["ev"]) else None})
    for s in samples:
        v.sample(s)
    v.assumptions += ["keys with reflexive equality; itertools.groupby (CPython) is the twin, validated against the spec on every replay"]
    return v.finish({
        "states": tot["states"], "transitions": tot["transitions"],
        "traces_validated_against_impl": tot["replays"] + st["traces"], "edge_cover_paths": tot["paths"],
        "replays": tot["replays"], "random_histories_validated_by_TLC": st["traces"], "trace_validation": st,
        "exhaustive": True, "evaluations": tot["replays"] + st["traces"], "distinct_nontrivial": tot["paths"],
        "rule": "one replay per transition of the GroupBy state graph and key flavour (shortest history + that operation); distinct by construction",
        "checker_cmd": "tlc spec/GroupBy.tla ; tlc -workers 1 spec/GroupByTrace.tla",
    })
