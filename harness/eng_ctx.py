"""CtxMgr engine (C13): contextmanager vs spec/CtxMgr.tla vs contextlib.asynccontextmanager.

TLC enumerates the whole grammar (3 x 10 x 3 programs x 8 block outcomes x 2 libraries) as
cases; every case is generated as a real async generator and run under a real `async with`
with asyncstdlib.contextmanager (verdict) and contextlib.asynccontextmanager (honesty of the
table: disagreement = machinery error).
"""
from __future__ import annotations

import contextlib

from . import tm
from .driver import Accounting, Task
from .report import Verdict
from .tlc import MachineryError, read_ndjson, run_tlc


class PreError(Exception):
    pass


class NewError(Exception):
    pass


class PreRuntimeError(RuntimeError):
    pass


class PostError(Exception):
    pass


class ChainedRuntimeError(RuntimeError):
    pass


BLOCK = {"Exception": Exception, "BaseException": BaseException, "StopIteration": StopIteration,
         "StopAsyncIteration": StopAsyncIteration, "RuntimeError": RuntimeError, "GeneratorExit": GeneratorExit,
         "KeyboardInterrupt": KeyboardInterrupt}
VALUE = object()


class StopIterationSub(StopIteration):
    pass


class StopAsyncIterationSub(StopAsyncIteration):
    pass


class GeneratorExitSub(GeneratorExit):
    pass


SUBCLASS = {"StopIteration": StopIterationSub, "StopAsyncIteration": StopAsyncIterationSub}
SUBCLASS_GE = {"GeneratorExit": GeneratorExitSub}


class GenProxy:
    """Counts how the context manager drives the generator."""

    def __init__(self, gen, st):
        self._g, self._st = gen, st

    def __aiter__(self):
        return self

    def __anext__(self):
        self._st["anext"] += 1
        return self._g.__anext__()

    def asend(self, v):
        self._st["anext"] += 1
        return self._g.asend(v)

    def athrow(self, *a):
        self._st["athrow"] += 1
        self._st.setdefault("thrown", []).append(a)
        return self._g.athrow(*a)

    def aclose(self):
        self._st["aclose"] += 1
        return self._g.aclose()


def make_genfunc(prog, made, st, again=None):
    """`again`: what a generator that yields a second time yields (the value again, or nothing at all)."""
    pre, h, post = prog["pre"], prog["h"], prog["post"]
    again = VALUE if again is None else again[0]

    def mk(cls):
        e = cls()
        made.append(e)
        return e

    async def gen():
        if pre == "raise":
            raise mk(PreError)
        if pre == "raisert":
            try:
                raise StopAsyncIteration
            except StopAsyncIteration:
                raise mk(PreRuntimeError)
        if pre == "noyield":
            return
        if h == "none":
            yield VALUE
        elif h == "finally":
            try:
                yield VALUE
            finally:
                st["finally"] = True
        elif h == "swallow":
            try:
                yield VALUE
            except BaseException:  # noqa: BLE001
                pass
        elif h == "reraise":
            try:
                yield VALUE
            except BaseException:  # noqa: BLE001
                raise
        elif h == "raisenew":
            try:
                yield VALUE
            except BaseException:  # noqa: BLE001
                raise mk(NewError)
        elif h == "raisenewfromnone":
            try:
                yield VALUE
            except BaseException:  # noqa: BLE001
                raise mk(NewError) from None
        elif h == "raisenewfrom":
            try:
                yield VALUE
            except BaseException as exc:  # noqa: BLE001
                raise mk(NewError) from exc
        elif h == "raisesametype":
            try:
                yield VALUE
            except BaseException as exc:  # noqa: BLE001
                raise mk(type(exc))
        elif h == "return":
            try:
                yield VALUE
            except BaseException:  # noqa: BLE001
                return
        elif h == "yieldagain":
            try:
                yield VALUE
            except BaseException:  # noqa: BLE001
                yield again
        elif h == "raisesai":
            try:
                yield VALUE
            except BaseException:  # noqa: BLE001
                raise mk(StopAsyncIteration)
        elif h == "raisert":
            try:
                yield VALUE
            except BaseException:  # noqa: BLE001
                raise mk(RuntimeError)
        elif h == "raisertfrom":
            try:
                yield VALUE
            except BaseException as exc:  # noqa: BLE001
                raise mk(ChainedRuntimeError) from exc
        if post == "yield":
            yield again
        elif post == "raise":
            raise mk(PostError)
        elif post == "raisesai":
            raise mk(StopAsyncIteration)

    def genfunc():
        return GenProxy(gen(), st)

    return genfunc


_EQ = {}


def eq_class(o):
    """The block's exception class with value-based equality (all instances equal, like a dataclass
    exception without fields) whose instances are falsy: identity, not equality, tells the block's exception from a
    new one, and an exception is one whatever its truth value."""
    if o not in _EQ:
        _EQ[o] = type(o + "Eq", (BLOCK[o],), {"__eq__": lambda s, x: type(s) is type(x), "__ne__": lambda s, x: type(s) is not type(x),
                                                "__hash__": lambda s: 1,
                                                "__bool__": lambda s: False})     # ... and falsy (an error that is an empty collection of problems)
    return _EQ[o]


def run_case(case, factory_of, subclass=False, eq=False, bare=False):
    prog, o = case["prog"], case["o"]
    made, st = [], {"anext": 0, "athrow": 0, "aclose": 0}
    genfunc0 = make_genfunc(prog, made, st, again=(None,) if bare else None)
    ncalls = {"genfunc": 0}

    def genfunc():
        ncalls["genfunc"] += 1
        return genfunc0()

    cmf = factory_of(genfunc)
    blockexc = (eq_class(o) if eq else SUBCLASS[o] if subclass and o in SUBCLASS else SUBCLASS_GE[o] if subclass and o in SUBCLASS_GE else BLOCK[o])() if o != "normal" else None
    obs = {"bound": None, "entered": False}

    holder = {}

    async def again():
        # a second with-statement on the same manager object (spec action Reenter)
        try:
            async with holder["cm"]:
                return "entered-again"
        except Exception:  # noqa: BLE001
            return "refused"

    async def body():
        holder["cm"] = cmf()
        try:
            async with holder["cm"] as v:
                obs["entered"] = True
                obs["bound"] = v is VALUE
                obs["enter_calls"] = st["anext"]
                if blockexc is not None:
                    raise blockexc
        except BaseException as exc:  # noqa: BLE001
            return exc
        return None

    acct = Accounting()
    r = Task(body(), acct).run()
    if r[0] != "done":
        return {"label": "harness-escape:" + type(r[1]).__name__, "entered": "?", "nresume": -1}
    exc = r[1]
    if exc is None:
        label = "ok" if blockexc is None else "suppressed"
    elif exc is blockexc:
        label = "same"
    elif any(exc is m for m in made):
        label = "new:" + type(exc).__name__
    elif isinstance(exc, RuntimeError):
        msg = str(exc)
        if "yield" in msg and ("didn't" in msg or "did not" in msg):
            label = "rt-noyield"
        elif "stop" in msg and ("didn't" in msg or "did not" in msg):
            label = "rt-nostop"
        elif "ignored GeneratorExit" in msg:
            label = "rt-ignored"
        elif exc.__cause__ is not None and (exc.__cause__ is blockexc or any(exc.__cause__ is m for m in made)):
            label = "rt-conv"
        else:
            label = "other:RuntimeError:" + msg[:40]
    else:
        label = "other:" + type(exc).__name__
    if not obs["entered"]:
        entered = "raise" if label.startswith(("new:PreError", "new:PreRuntimeError")) else "rt-noyield" if label == "rt-noyield" else "?"
        nres = 0
    else:
        entered = "value" if obs["bound"] else "wrong-value"
        drive = (st["anext"] - obs["enter_calls"]) + st["athrow"]
        nres = drive if drive else min(st["aclose"], 1)
    drive_before = (st["anext"], st["athrow"])
    r2 = Task(again(), acct).run()
    second = r2[1] if r2[0] == "done" else "escaped:" + type(r2[1]).__name__
    if second == "refused" and (ncalls["genfunc"] != 1 or (st["athrow"] != drive_before[1])):
        second = "refused-but-generator-made-or-driven-again"
    # what is thrown into the generator is the block's exception itself (the object, in one of the two calling conventions)
    thrown_ok = all(any(x is blockexc for x in a) for a in st.get("thrown", []))
    # the RuntimeErrors the manager raises itself (did not yield / did not stop / ignored GeneratorExit) are reports of
    # its own: raised without an explicit cause, so that nobody further out takes them for a converted Stop*Iteration
    if label in ("rt-noyield", "rt-nostop", "rt-ignored") and exc.__cause__ is not None:
        label += "+with-cause"
    return {"label": label, "entered": entered, "nresume": nres, "acct_ok": acct.ok() and not acct.minted, "thrown_ok": thrown_ok,
            "second": second}


def reuse_scenario(deco, nested):
    """One manager OBJECT used for two with-blocks (one after the other, or the second inside the first).  A
    generator-based manager is good for one use (contextlib refuses the second): its generator is driven exactly once."""
    calls, log, out = [], [], []

    @deco
    async def ctx():
        calls.append(1)
        log.append("setup")
        try:
            yield len(calls)
        finally:
            log.append("teardown")

    async def second(cm):
        try:
            async with cm as v2:
                log.append(("body2", v2))
            out.append("second:ok")
        except Exception as e:  # noqa: BLE001
            out.append("second:refused:" + type(e).__name__)

    async def go():
        cm = ctx()
        try:
            async with cm as v1:
                log.append(("body1", v1))
                if nested:
                    await second(cm)
            out.append("first:ok")
        except Exception as e:  # noqa: BLE001
            out.append("first:" + type(e).__name__)
        if not nested:
            await second(cm)

    r = Task(go(), Accounting()).run()
    return {"outcome": [x.split(":")[0] + ":" + x.split(":")[1] for x in out], "second_body_ran": any(isinstance(x, tuple) and x[0] == "body2" for x in log),
            "generator_function_calls": len(calls), "setups": log.count("setup"), "teardowns": log.count("teardown"), "raw": repr((r[0], out))}


REUSE_EXPECTED = {"outcome": None, "second_body_ran": False, "generator_function_calls": 1, "setups": 1, "teardowns": 1}


CFG = """CONSTANTS
  OutFile = "@OUT:cases.ndjson@"
INIT Init
NEXT Next
CHECK_DEADLOCK FALSE
INVARIANT ResumedOnce
INVARIANT NotMisattributed
INVARIANT SingleUse
INVARIANT Emit
"""


def prog_label(got, c):
    """Outcome label with the subclass name folded back (raise same type builds a subclass instance)."""
    return fold(got["label"]), got["entered"]


def fold(label):
    """Names of the derived exception classes folded back to the class of the grammar."""
    label = label.replace("IterationSub", "Iteration").replace("GeneratorExitSub", "GeneratorExit")
    return label[:-2] if label.startswith("new:") and label.endswith("Eq") else label


def check(prop, tier, seed, into=None):
    v = into or Verdict(prop, tier, seed)
    res = run_tlc("CtxMgr", CFG, outfiles=["cases.ndjson"], timeout=600)
    cases = read_ndjson(res["files"]["cases.ndjson"])
    L = tm.load_lib()
    n = {"impl": 0, "twin": 0, "differs_from_stdlib_table": 0}
    mach = []
    table = {}
    for c in cases:
        k = (c["prog"]["pre"], c["prog"]["h"], c["prog"]["post"], c["o"])
        table.setdefault(k, {})[c["lib"]] = c
    for k, both in sorted(table.items()):
        if both["stdlib"]["result"] != both["asyncstdlib"]["result"]:
            n["differs_from_stdlib_table"] += 1
            if k[3] != "GeneratorExit":
                raise MachineryError(f"CtxMgr tables differ outside the GeneratorExit rule: {k}")
    for c in cases:
        exp = {"label": c["result"], "entered": c["entered"], "nresume": c["nresume"]}
        if c["lib"] == "stdlib":
            got = run_case(c, contextlib.asynccontextmanager)
            n["twin"] += 1
            if c["o"] in SUBCLASS:      # a subclass of Stop*Iteration raised in the block behaves like the class itself
                got_sub = run_case(c, contextlib.asynccontextmanager, subclass=True)
                if prog_label(got_sub, c) != prog_label(got, c):
                    mach.append({"case": {"prog": c["prog"], "o": c["o"] + "(subclass)"}, "expected": got, "twin": got_sub})
            if c["prog"]["h"] == "yieldagain" or c["prog"]["post"] == "yield":    # a second yield is one, with or without a value
                got_bare = run_case(c, contextlib.asynccontextmanager, bare=True)
                if prog_label(got_bare, c) != prog_label(got, c):
                    mach.append({"case": {"prog": c["prog"], "o": c["o"] + "(bare second yield)"}, "expected": got, "twin": got_bare})
            if c["o"] != "normal":      # ... and so does a class whose instances all compare equal
                got_eq = run_case(c, contextlib.asynccontextmanager, eq=True)
                if prog_label(got_eq, c) != prog_label(got, c):
                    mach.append({"case": {"prog": c["prog"], "o": c["o"] + "(eq)"}, "expected": got, "twin": got_eq})
            if c["second"] != "-" and got["second"] != c["second"]:
                mach.append({"case": {"prog": c["prog"], "o": c["o"]}, "what": "contextlib: second use of the manager object", "expected": c["second"], "twin": got["second"]})
            if not got.get("thrown_ok", True) or (c["o"] != "normal" and not got_eq.get("thrown_ok", True)):
                mach.append({"case": {"prog": c["prog"], "o": c["o"]}, "what": "contextlib throws another object than the block's exception"})
            # contextlib closes the generator once more after 'did not stop': not a resume of the body
            if {x: got[x] for x in ("label", "entered")} != {x: exp[x] for x in ("label", "entered")}:
                mach.append({"case": {"prog": c["prog"], "o": c["o"]}, "expected": exp, "twin": got})
        else:
            runs = [("", run_case(c, L.contextmanager))]
            if c["o"] in SUBCLASS:
                runs.append(("(subclass)", run_case(c, L.contextmanager, subclass=True)))
            if c["o"] == "GeneratorExit" and table[(c["prog"]["pre"], c["prog"]["h"], c["prog"]["post"], c["o"])]["stdlib"]["result"] == c["result"]:
                # a class derived from GeneratorExit, for the programs where closing the generator and throwing into it
                # come to the same: whichever way the library takes for it, the outcome is this one
                runs.append(("(subclass)", run_case(c, L.contextmanager, subclass=True)))
            # (not for GeneratorExit: the closing rule of asyncstdlib is stated for the class itself -- the
            #  block outcomes of C13 -- and a derived class, which the variant needs, takes the contextlib path)
            if c["o"] not in ("normal", "GeneratorExit"):
                runs.append(("(instances-compare-equal)", run_case(c, L.contextmanager, eq=True)))
            if c["prog"]["h"] == "yieldagain" or c["prog"]["post"] == "yield":
                runs.append(("(bare second yield)", run_case(c, L.contextmanager, bare=True)))
            n["impl"] += len(runs)
            for sub, got in runs:
                cfg = {"prog": c["prog"], "block": c["o"] + sub}
                got = dict(got, label=fold(got["label"]))   # `raise type(exc)()` builds an instance of the derived class
                if got["entered"] != exp["entered"]:
                    v.violation(f"C13/contextmanager/enter-{got['entered']}-instead-of-{exp['entered']}", {"engine": "ctxmgr", "cfg": cfg, "expected": exp, "observed": got})
                elif got["label"] != exp["label"]:
                    v.violation(f"C13/contextmanager/{got['label'].split(':')[0]}-instead-of-{exp['label'].split(':')[0]}+block-{c['o']}",
                                {"engine": "ctxmgr", "spec": "CtxMgr", "cfg": cfg, "expected": exp, "observed": got})
                elif got["nresume"] != exp["nresume"]:
                    v.violation("C13/contextmanager/generator-not-driven-exactly-once", {"engine": "ctxmgr", "cfg": cfg, "expected": exp, "observed": got})
                if not got.get("acct_ok", True):
                    v.violation("C13/contextmanager/suspends-without-user-awaitable", {"engine": "ctxmgr", "cfg": cfg})
                if c["second"] != "-" and got["second"] != c["second"]:
                    v.violation("C13/contextmanager/manager-object-used-twice-is-driven-again", {"engine": "ctxmgr", "spec": "CtxMgr", "cfg": cfg, "expected": c["second"], "observed": got["second"]})
                if not got.get("thrown_ok", True):
                    v.violation("C13/contextmanager/generator-thrown-another-object-than-the-block-exception", {"engine": "ctxmgr", "cfg": cfg, "observed": got})
    for nested in (False, True):
        want = dict(REUSE_EXPECTED, outcome=["second:refused", "first:ok"] if nested else ["first:ok", "second:refused"])
        tw = reuse_scenario(contextlib.asynccontextmanager, nested)
        if {k: tw[k] for k in want} != want:
            mach.append({"what": "contextlib lets one manager object be used twice", "nested": nested, "twin": tw})
        got = reuse_scenario(L.contextmanager, nested)
        n["impl"] += 1
        if {k: got[k] for k in want} != want:
            v.violation("C13/contextmanager/manager-object-used-twice-is-driven-again", {"engine": "scenario", "nested": nested, "expected": want, "observed": got})
    if mach:
        raise MachineryError("CtxMgr spec disagrees with contextlib.asynccontextmanager: " + str(mach[:4]))
    for c in cases[:: max(1, len(cases) // 5)]:
        v.sample({"prog": c["prog"], "block": c["o"], "lib": c["lib"], "result": c["result"]})
    v.assumptions += ["the ten handlers catch BaseException; programs are generated as real async generators by harness/eng_ctx.py",
                      "contextlib.asynccontextmanager of CPython 3.12 is the twin for every case of the 'stdlib' table"]
    return v.finish({
        "states": res["distinct"], "transitions": res["generated"], "traces_validated_against_impl": n["impl"], "twin_replays": n["twin"],
        "cases": len(cases), "cases_where_asyncstdlib_table_differs_from_stdlib": n["differs_from_stdlib_table"],
        "exhaustive": True, "evaluations": n["impl"], "distinct_nontrivial": n["impl"],
        "rule": "every program x block outcome of the grammar (720 per library table); all distinct",
        "checker_cmd": "tlc spec/CtxMgr.tla",
    })
