"""ToolMachine engine: replay TLC-generated cases into asyncstdlib and the stdlib twin.

A *case* is one leaf of the state tree of spec/ToolMachine.tla:
  {"cfg": {tool, par, data}, "log": [...], "nnext": n, "fault": k, "sst": {...}, "pos": {...}}
``execute`` runs it against a library namespace and returns what was observed in the
same vocabulary; the comparators project both sides per property.
"""
from __future__ import annotations

import builtins
import functools
import heapq
import itertools
import os
import sys

from .driver import Task, drain_asyncgens
from .instruments import (
    Cancelled,
    InjectedError,
    InjectedTypeError,
    Aw,
    Item,
    Node,
    Recorder,
    StartObj,
    jsonify,
    make_callable,
    make_source,
)

REPO = os.environ.get("VERIF_REPO", "/repo")


# Calls of asyncio entry points made *by library code* (the frame that calls belongs to an asyncstdlib module).  The
# watch is installed before the library is imported for the first time, so that names the library imports from
# asyncio are the watched ones.  The harness' own use of asyncio (eng_aio) is not recorded.
LIB_ASYNCIO_CALLS = []


def _install_asyncio_watch():
    import asyncio  # noqa: PLC0415
    import asyncio.events as ev  # noqa: PLC0415
    import asyncio.tasks as tasks  # noqa: PLC0415

    targets = [(asyncio, n) for n in ("get_running_loop", "get_event_loop", "new_event_loop", "ensure_future", "create_task", "sleep",
                                      "shield", "wait_for", "gather", "wrap_future", "run_coroutine_threadsafe", "to_thread", "wait",
                                      "current_task", "all_tasks", "timeout", "timeout_at", "get_event_loop_policy")]
    targets += [(ev, n) for n in ("get_running_loop", "get_event_loop", "_get_running_loop", "new_event_loop")]
    targets += [(tasks, n) for n in ("ensure_future", "create_task", "sleep", "shield", "wait_for", "gather", "current_task", "all_tasks")]
    # the hooks an event loop installs for asynchronous generators: asking for them is asking for the loop, without naming one
    targets += [(sys, n) for n in ("get_asyncgen_hooks", "set_asyncgen_hooks")]
    for mod, name in targets:
        orig = getattr(mod, name, None)
        if orig is None or getattr(orig, "_verif_watch", False):
            continue

        def wrapper(*a, _orig=orig, _name=name, **k):
            caller = sys._getframe(1).f_globals.get("__name__", "")
            if caller.startswith("asyncstdlib"):
                LIB_ASYNCIO_CALLS.append(_name)
            return _orig(*a, **k)

        wrapper._verif_watch = True
        wrapper.__name__ = getattr(orig, "__name__", name)
        wrapper.__wrapped__ = orig
        setattr(mod, name, wrapper)


def load_lib():
    if "asyncstdlib" not in sys.modules:
        _install_asyncio_watch()
    if REPO not in sys.path:
        sys.path.insert(0, REPO)
    import asyncstdlib  # noqa: PLC0415

    assert os.path.dirname(os.path.dirname(os.path.abspath(asyncstdlib.__file__))) == os.path.abspath(REPO), asyncstdlib.__file__
    return asyncstdlib


class _TwinChain:
    def __call__(self, *its):
        return itertools.chain(*its)

    @staticmethod
    def from_iterable(outer):
        return itertools.chain.from_iterable(outer)


class Twin:
    """The synchronous standard library under asyncstdlib's names."""

    zip = builtins.zip
    map = builtins.map
    filter = builtins.filter
    enumerate = builtins.enumerate
    iter = builtins.iter
    all = builtins.all
    any = builtins.any
    sum = builtins.sum
    min = builtins.min
    max = builtins.max
    list = builtins.list
    tuple = builtins.tuple
    set = builtins.set
    dict = builtins.dict
    sorted = builtins.sorted
    reduce = functools.reduce
    accumulate = itertools.accumulate
    batched = itertools.batched
    chain = _TwinChain()
    compress = itertools.compress
    cycle = itertools.cycle
    dropwhile = itertools.dropwhile
    filterfalse = itertools.filterfalse
    islice = itertools.islice
    pairwise = itertools.pairwise
    starmap = itertools.starmap
    takewhile = itertools.takewhile
    zip_longest = itertools.zip_longest
    merge = heapq.merge

    @staticmethod
    def nlargest(it, n, key=None):
        return heapq.nlargest(n, it, key=key)

    @staticmethod
    def nsmallest(it, n, key=None):
        return heapq.nsmallest(n, it, key=key)


AGGREGATIONS = {"all", "any", "sum", "reduce", "min", "max", "list", "tuple", "set", "dict",
                "sorted", "nlargest", "nsmallest", "apply", "sync", "anext"}
NO_TWIN = {"any_iter", "await_each", "apply", "sync"}
SENTINEL_KEY = 2
NONE_I = -1


def _opt(v):
    return None if v == NONE_I else v


class InjectedStopAsync(StopAsyncIteration):
    """A user callable fails with (a subclass of) the exception that also ends asynchronous iteration."""


class InjectedStop(StopIteration):
    pass


class InjectedValueError(ValueError):
    """A user's ValueError: not the library's own "empty sequence" / "strict" one."""


class InjectedLookupError(KeyError):
    pass


class InjectedBase(BaseException):
    """A failure that is no Exception (like KeyboardInterrupt or a loop's own cancellation class) raised BY a source or
    callable: it propagates and is cleaned up after like any other."""

    def __bool__(self):
        return False


class Matcher:
    """A sentinel that decides by itself what equals it: anything whose key is the sentinel key."""

    def __eq__(self, other):
        return getattr(other, "k", None) == SENTINEL_KEY

    def __hash__(self):
        return 0


class StrictItem(Item):
    """An item that answers every comparison with something that is no item with False (not NotImplemented)."""

    __slots__ = ()

    def __eq__(self, o):
        return self.k == o.k if isinstance(o, Item) else False

    def __ne__(self, o):
        return not self.__eq__(o)

    __hash__ = Item.__hash__


class StrSub(str):
    pass


class ByteArraySub(bytearray):
    pass


def build_call(L, tool, par, S, F, rec):
    """Return a zero-argument function performing the library call for this case."""
    if tool == "zip":
        return lambda: L.zip(*S, strict=par["strict"])
    if tool == "map":
        return lambda: L.map(F("func"), *S)
    if tool in ("filter", "filterfalse"):
        fn = getattr(L, tool)
        return lambda: fn(F("pred") if par["pred"] else None, S[0])
    if tool == "enumerate":
        return lambda: L.enumerate(S[0], par["start"])
    if tool == "iter":
        rec.sentinel = Item(0, 0, 7 if par.get("sent") == "ident" else SENTINEL_KEY)
        if par.get("sent") == "eq" and rec.matcher:
            rec.sentinel = Matcher()        # "equal to the sentinel" is the sentinel's own judgement (it is asked first)
        return lambda: L.iter(F("subject"), rec.sentinel)
    if tool == "accumulate":
        kw = {"initial": Node("initial")} if par["init"] else {}
        if par["fn"] == "func":
            return lambda: L.accumulate(S[0], F("func"), **kw)
        return lambda: L.accumulate(S[0], **kw)
    if tool == "batched":
        if par["strict"]:
            return lambda: L.batched(S[0], par["n"], strict=True)
        return lambda: L.batched(S[0], par["n"])
    if tool == "chain":
        if par["outer"]:
            return lambda: L.chain.from_iterable(S[-1])
        return lambda: L.chain(*S)
    if tool == "compress":
        return lambda: L.compress(S[0], S[1])
    if tool in ("cycle", "pairwise"):
        fn = getattr(L, tool)
        return lambda: fn(S[0])
    if tool in ("dropwhile", "takewhile"):
        fn = getattr(L, tool)
        return lambda: fn(F("pred"), S[0])
    if tool == "starmap":
        return lambda: L.starmap(F("func"), S[0])
    if tool == "islice":
        a, b, c = _opt(par["start"]), _opt(par["stop"]), _opt(par["step"])
        if a is None and c is None:
            return lambda: L.islice(S[0], b)  # the one-argument form
        if c is None:
            return lambda: L.islice(S[0], a, b)
        return lambda: L.islice(S[0], a, b, c)
    if tool == "zip_longest":
        fill = rec.first_item[0] if par.get("fill") == "first" and rec.first_item else Node("fill")
        return lambda: L.zip_longest(*S, fillvalue=fill)
    if tool == "merge":
        return lambda: L.merge(*S, key=F("key") if par["key"] else None, reverse=par["rev"])
    if tool == "dict":
        kw = {"k1": Node("kw")} if par.get("kw") else {}
        return lambda: L.dict(S[0], **kw)
    if tool in ("all", "any", "list", "tuple", "set"):
        fn = getattr(L, tool)
        return lambda: fn(S[0])
    if tool == "sum":
        start = {"zero": lambda: 0, "str": lambda: "", "strsub": lambda: StrSub(""), "bytes": lambda: b"",
                 "bytearraysub": lambda: ByteArraySub(b"")}.get(par["startv"], lambda: StartObj("startobj", (), rec))()
        rec.start_obj = start
        return lambda: L.sum(S[0], start)
    if tool == "reduce":
        if par["init"]:
            init_ = None if par.get("inone") else Node("initial")
            return lambda: L.reduce(F("func"), S[0], init_)
        return lambda: L.reduce(F("func"), S[0])
    if tool in ("min", "max"):
        fn = getattr(L, tool)
        kw = {}
        if par["key"]:
            kw["key"] = F(par.get("kf", "key"))
        if par["dflt"] == "fresh" or (par["dflt"] == "first" and not rec.first_item):
            kw["default"] = Node("default")
        elif par["dflt"] == "first":
            kw["default"] = rec.first_item[0]
        return lambda: fn(S[0], **kw)
    if tool == "sorted":
        kw = {"key": F("key")} if par["key"] else {}
        return lambda: L.sorted(S[0], reverse=par["rev"], **kw)
    if tool in ("nlargest", "nsmallest"):
        fn = getattr(L, tool)
        kw = {"key": F("key")} if par["key"] else {}
        return lambda: fn(S[0], par["n"], **kw)
    if tool == "any_iter":
        if par["outer"]:
            from .instruments import AwIterable  # noqa: PLC0415
            return lambda: L.any_iter(AwIterable(Aw(rec, S[0], Node("iterable"))))
        return lambda: L.any_iter(S[0])
    if tool == "await_each":
        return lambda: L.await_each(S[0])
    if tool == "apply":
        pos, kws = rec.apply_args
        g = F("func")

        def func(*a, **kw):  # the awaited keyword values arrive by name, in call order
            if list(kw) != list(kws):
                raise AssertionError(f"keyword names {list(kw)}")
            res = g(*a, *kw.values())
            if par.get("awres"):
                return Aw(rec, res, Node("result-awaited"))   # the result is itself awaitable: to be handed back as it is
            return res

        return lambda: L.apply(func, *pos, **kws)
    if tool == "anext":
        dflt = () if par["dflt"] == "no" else (None,) if par["dflt"] == "none" else (Node("default"),)
        if L is Twin:
            def calls():
                it = iter(S[0])
                return [next(it, *dflt) for _ in range(par["n"])]
            return calls

        async def acalls():
            it = S[0] if hasattr(S[0], "__anext__") else S[0].__aiter__()
            return [await L.anext(it, *dflt) for _ in range(par["n"])]
        return acalls
    if tool == "sync":
        async def two_calls():
            f = L.sync(F("func"))       # wrapping is part of the operation: whatever it raises is the outcome
            return (await f(Item(1, 1, 1)), await f(Item(1, 2, 1)))

        return two_calls
    raise KeyError(tool)


def fault_plan(case):
    """Which use fails: ("pull", src, ordinal) / ("call", f, ordinal) / None."""
    if case.get("plan"):
        return tuple(case["plan"])     # random drivers name the failing use directly
    if not case.get("fault"):
        return None
    log = case["log"]
    last = log[-1]
    assert last.get("res") == "raise", last
    if last["ev"] == "pull":
        who = last["src"]
        n = sum(1 for e in log if e["ev"] == "pull" and e["src"] == who)
    elif last["ev"] == "await":
        who = "aw"
        n = sum(1 for e in log if e["ev"] == "await")
    else:
        who = last["f"]
        n = sum(1 for e in log if e["ev"] == "call" and e["f"] == who)
    return (last["ev"], who, n)


class Obs:
    __slots__ = ("cancel_tag", "closes", "nsusp_close", "deferred_closes", "log", "ending", "released", "states", "acct", "mutations", "uses_after_fault",
                 "exc_same", "exc_type", "nsusp", "started", "handles", "close_error", "fault_fired", "invoked_extra")

    def brief(self):
        return {"log": self.log, "ending": self.ending, "released": self.released,
                "states": self.states, "exc_type": self.exc_type, "exc_same": self.exc_same,
                "mutations": self.mutations, "uses_after_fault": self.uses_after_fault,
                "close_error": self.close_error}


NONE_TOOLS = ("zip", "anext")     # tools whose items with key 0 are the object None


def noneify(log, dflt_none=False, none_nodes=()):
    """Expected log with every key-0 item replaced by None (what the real source hands out);
    dflt_none: the default object of the call is None as well."""
    def conv(v):
        if isinstance(v, dict):
            if set(v) == {"s", "p", "k"} and v["k"] == 0:
                return None
            if dflt_none and v == {"f": "default", "a": []}:
                return None
            if v.get("f") in none_nodes and v.get("a") == []:
                return None
            return {a: conv(b) for a, b in v.items()}
        if isinstance(v, list):
            return [conv(x) for x in v]
        return v
    return [conv(e) for e in log]


def noneify_nodes(log, names):
    """Expected log with the free constructors of the given names replaced by None (items untouched)."""
    def conv(v):
        if isinstance(v, dict):
            if v.get("f") in names and v.get("a") == []:
                return None
            return {a: conv(b) for a, b in v.items()}
        if isinstance(v, list):
            return [conv(x) for x in v]
        return v
    return [conv(e) for e in log]


# tools for which items are opaque: the second item of the first source is handed out as the object None
# (nothing may be read into an item being None); expected logs are converted with none_at()
NONE_POS_TOOLS = ("map", "enumerate", "batched", "chain", "cycle", "pairwise", "islice", "zip_longest")


def none_p(n):
    """Which item (1-based) of a first source of n items is the object None: the first one for odd n, the second for even n."""
    return 1 if n % 2 else 2


def none_at(log, s=1, p=2):
    """Expected log with item (s, p) spelled None."""
    def conv(v):
        if isinstance(v, dict):
            if set(v) == {"s", "p", "k"} and v["s"] == s and v["p"] == p:
                return None
            return {a: conv(b) for a, b in v.items()}
        if isinstance(v, list):
            return [conv(x) for x in v]
        return v
    return [conv(e) for e in log]


def none_back(log, k, s=1, p=2):
    """Observed log with every None turned back into item (s, p) -- the only None there can be."""
    def conv(v):
        if v is None:
            return {"s": s, "p": p, "k": k}
        if isinstance(v, dict):
            return {a: (conv(b) if a in ("v", "a") else b) for a, b in v.items()}
        if isinstance(v, list):
            return [conv(x) for x in v]
        return v
    return [conv(e) for e in log]


def _items_for(tool, i, keys):
    items = [Item(i, p + 1, k) for p, k in enumerate(keys)]
    if tool in NONE_POS_TOOLS and i == 1 and len(items) >= 1:
        items[none_p(len(items)) - 1] = None
        return items
    if tool in NONE_TOOLS:
        return [None if x.k == 0 else x for x in items]
    if tool == "starmap":
        return [(x, x) for x in items]
    if tool == "dict":
        return [(f"k{x.k}", Node("val", (x,))) for x in items]
    return items


DEFAULT_FLAV = {"src": "cls", "call": "asyncdef"}


def execute(case, L, *, sync=False, flav=None, susp=0, fault_kind="exc", cancel_at=None,
            close_after_error=False, cancel_cls=Cancelled):
    """Run one case against library namespace L (asyncstdlib, or Twin when sync)."""
    cfg = case["cfg"]
    tool, par, data = cfg["tool"], cfg["par"], cfg["data"]
    flav = flav or DEFAULT_FLAV
    rec = Recorder()
    rec.susp = 0 if sync else susp
    rec.first_item = []
    rec.matcher = tool == "iter" and par.get("sent") == "eq" and len(data[0]) % 2 == 1
    rec.close_susp = 0
    from . import instruments as _ins  # noqa: PLC0415
    _ins.set_mutation_sink(rec.mutations)
    rec.fault = fault_plan(case)
    if rec.fault is not None:
        rec.fault_exc = {"exc": InjectedError, "typeerr": InjectedTypeError, "cancel": Cancelled,
                         "stopasync": InjectedStopAsync, "stopiter": InjectedStop, "valueerr": InjectedValueError,
                         "lookuperr": InjectedLookupError, "baseexc": InjectedBase}[fault_kind]("injected")
    src_flav = flav["src"]
    S, H = [], []
    list_snap, list_edited = {}, set()     # the caller's lists as handed over / those the harness edited itself
    if tool == "apply":
        rec.apply_args = ([Aw(rec, Item(1, p + 1, k)) for p, k in enumerate(data[0])],
                          # keyword names a wrapper might want for itself must pass through like any other
                          {("func", "self", "args", "kwargs", "function")[p]: Aw(rec, Item(2, p + 1, k)) for p, k in enumerate(data[1])})
    for i, keys in enumerate(data if tool not in ("iter", "apply", "sync") else [], start=1):
        fl = "iter" if sync else (src_flav[i - 1] if isinstance(src_flav, (list, tuple)) else src_flav)
        if tool == "await_each":
            fl = "iter"     # await_each takes a plain iterable of awaitables
        items_ = _items_for(tool, i, keys)
        if i == 1:
            rec.first_item = items_[:1]
        if tool == "await_each":
            from .instruments import LazyAw  # noqa: PLC0415
            items_ = [LazyAw(rec, x, gen=len(items_) % 2 == 0) for x in items_]      # made one by one, as the tool asks for them
        elif tool == "any_iter" and par["aw"]:
            items_ = [Aw(rec, x) for x in items_]
        if par.get("alias") and i > 1:      # the very same iterator object at every position
            S.append(S[0])
            continue
        obj, h = make_source(fl, rec, i, items_)
        if fl == "list":
            list_snap[i] = list(obj)
        S.append(obj)
        H.append(h)
    if tool == "chain" and par.get("outer"):
        fl = "iter" if sync else (flav.get("outer") or (src_flav if isinstance(src_flav, str) else src_flav[0]))
        obj, h = make_source(fl, rec, 0, list(S))
        S.append(obj)
        H.append(h)

    call_flav = "def" if sync or tool == "apply" else flav["call"]
    made = {}

    def F(name):
        if name not in made:
            sem = None
            if name == "subject":
                keys = data[0]
                state = {"p": 0}

                def sem():
                    state["p"] += 1
                    p = state["p"]
                    if p > len(keys) and par.get("sent") == "ident":
                        return rec.sentinel        # the sentinel object itself
                    return (StrictItem if rec.matcher else Item)(1, p, keys[p - 1] if p <= len(keys) else SENTINEL_KEY)

            if name == "pred" and tool == "dropwhile":
                # the predicate of dropwhile has done its work once it has said no: whoever asks it again gets an error
                # (the counterpart never asks again)
                from .instruments import _semantics as _sem_of  # noqa: PLC0415
                base, done = _sem_of(rec, "pred"), {"no": False}

                def sem(x):
                    if done["no"]:
                        raise AssertionError("predicate of dropwhile asked again after it had said no")
                    r_ = base(x)
                    done["no"] = not r_
                    return r_

            made[name] = make_callable(call_flav, rec, name, sem)
        return made[name]

    o = Obs()
    o.close_error = None
    o.exc_same = None
    o.exc_type = None
    o.ending = None
    o.started = False
    nsusp = [0]

    def drive(aw):
        """Run an awaitable to completion by hand, cancelling at the planned suspension."""
        t = Task(aw, rec.acct)
        r = t.step()
        while r[0] == "token":
            nsusp[0] += 1
            if cancel_at is not None and nsusp[0] == cancel_at:
                o.fault_fired = True
                rec.cancel_tag = getattr(r[1], "tag", None)
                r = t.throw(cancel_exc)
            else:
                r = t.step()
        return r

    cancel_exc = cancel_cls("cancel") if cancel_at is not None else None
    o.fault_fired = False

    def classify(exc):
        """Record how an exception left the operation."""
        inj = rec.fault_exc if rec.fault_fired else (cancel_exc if o.fault_fired else None)
        o.exc_type = type(exc).__name__
        if tool == "anext" and type(exc) in (StopIteration, StopAsyncIteration):
            o.exc_type = "Stop"        # the end of iteration, in the vocabulary of either protocol
        if inj is not None:
            o.exc_same = exc is inj
            o.ending = "cancel" if (cancel_exc is not None and o.fault_fired) else "fault"
            if not o.exc_same:
                rec.ev(ev="raise", x=o.exc_type)
        else:
            o.ending = "raise"
            rec.ev(ev="raise", x=o.exc_type)

    thunk = build_call(L, tool, par, S, F, rec)
    nnext = case["nnext"]
    closes = case["closes"] if "closes" in case else case["log"][-1]["ev"] == "close"
    it = None
    try:
        if tool in AGGREGATIONS:
            rec.ev(ev="next")
            o.started = True
            if sync:
                try:
                    v = thunk()
                    rec.ev(ev="return", v=jsonify(v))
                    o.ending = "return"
                except BaseException as e:  # noqa: BLE001
                    classify(e)
            else:
                try:
                    aw = thunk()
                except BaseException as e:  # noqa: BLE001
                    classify(e)
                else:
                    r = drive(aw)
                    if r[0] == "done":
                        rec.ev(ev="return", v=jsonify(r[1]))
                        o.ending = "return"
                    else:
                        classify(r[1])
        else:
            construct_exc = None
            try:
                it = thunk()
                if not sync and not hasattr(it, "__anext__"):
                    it = it.__aiter__()
            except BaseException as e:  # noqa: BLE001
                construct_exc = e
            # a caller may edit their own list once a tool has seen its end: what a tool has taken
            # is the tool's (itertools.cycle replays the items it saw, not the list)
            stop_step, nx = {}, 0
            for e_ in case["log"]:
                nx += e_["ev"] == "next"
                if e_["ev"] == "pull" and e_.get("res") == "stop" and e_["src"] >= 1:
                    stop_step.setdefault(e_["src"], nx)
            for step_ in range(1, nnext + 1):
                for i_, at in stop_step.items():
                    if at == step_ - 1 and not sync and i_ <= len(S) and type(S[i_ - 1]).__name__ == "ListSource":
                        S[i_ - 1][:] = [Item(i_, 90 + j_, 1) for j_ in range(2)]
                        list_edited.add(i_)
                rec.ev(ev="next")
                o.started = True
                if construct_exc is not None:
                    classify(construct_exc)
                    break
                if sync:
                    try:
                        v = next(it)
                    except StopIteration:
                        rec.ev(ev="end")
                        o.ending = "end"
                        break
                    except BaseException as e:  # noqa: BLE001
                        classify(e)
                        break
                    rec.ev(ev="yield", v=jsonify(v))
                else:
                    r = drive(it.__anext__())
                    if r[0] == "done":
                        rec.ev(ev="yield", v=jsonify(r[1]))
                    elif isinstance(r[1], StopAsyncIteration):
                        rec.ev(ev="end")
                        o.ending = "end"
                        break
                    else:
                        classify(r[1])
                        break
            if o.ending is None and closes:
                rec.ev(ev="close")
                o.ending = "close"
                if it is not None:
                    if sync:
                        if hasattr(it, "close"):
                            it.close()
                    elif hasattr(it, "aclose"):
                        t_ = Task(it.aclose(), rec.acct)
                        r = t_.run()
                        rec.close_susp += t_.nsusp
                        if r[0] == "raised":
                            o.close_error = repr(r[1])
            elif o.ending in ("cancel",) or (close_after_error and o.ending in ("fault", "raise")):
                # the owner closes the library iterator it was advancing (C18)
                if it is not None and not sync and hasattr(it, "aclose"):
                    t_ = Task(it.aclose(), rec.acct)
                    r = t_.run()
                    rec.close_susp += t_.nsusp
                    if r[0] == "raised":
                        o.close_error = repr(r[1])
    finally:
        pass
    for i_, snap in list_snap.items():     # a tool reads the caller's list, it never rearranges or empties it
        if i_ not in list_edited and (len(S[i_ - 1]) != len(snap) or any(x is not y for x, y in zip(S[i_ - 1], snap))):
            rec.mutations.append("input-list-changed")
    o.log = list(rec.log)
    n_awaited = {}
    for e_ in rec.log:
        if e_["ev"] == "call":
            n_awaited[e_["f"]] = n_awaited.get(e_["f"], 0) + 1
    o.invoked_extra = {f: n - n_awaited.get(f, 0) for f, n in rec.invoked.items() if n != n_awaited.get(f, 0)}
    o.released = {h.idx if hasattr(h, "idx") else j: bool(h.released) for j, h in enumerate(H, start=1)}
    o.states = {getattr(h, "idx", j): getattr(h, "state", "?") for j, h in enumerate(H, start=1)}
    o.acct = rec.acct
    o.mutations = rec.mutations
    o.uses_after_fault = rec.uses_after_fault
    o.nsusp = nsusp[0]
    o.fault_fired = bool(rec.fault_fired or o.fault_fired)
    o.handles = H
    o.closes = {getattr(h, "idx", j): getattr(h, "closes", 0) for j, h in enumerate(H, start=1)}
    o.nsusp_close = rec.close_susp
    o.cancel_tag = getattr(rec, "cancel_tag", None)
    del it, thunk
    o.deferred_closes = drain_asyncgens(rec.acct)   # what a loop would clean up later
    return o


# --------------------------------------------------------------------------- projections


def yields(log):
    return [e["v"] for e in log if e["ev"] == "yield"]


def ending(log):
    """How the consumer saw the operation end, from a log."""
    for e in reversed(log):
        if e["ev"] in ("end", "close"):
            return (e["ev"],)
        if e["ev"] == "raise":
            return ("raise", e["x"])
        if e["ev"] == "return":
            return ("return", e["v"])
        if e.get("res") == "raise":
            return ("fault",)
        if e["ev"] in ("yield", "next"):
            return ("open",)
    return ("open",)


def lazy_projection(log):
    """C05: pulls, end-of-source detections, calls with arguments, yields, consumer steps."""
    return [e for e in log if e["ev"] in ("next", "pull", "call", "yield", "end", "raise", "return")]


def first_diff(a, b):
    for j, (x, y) in enumerate(zip(a, b)):
        if x != y:
            return j, x, y
    if len(a) != len(b):
        j = min(len(a), len(b))
        return j, (a[j] if j < len(a) else None), (b[j] if j < len(b) else None)
    return None


def _kind(e):
    if e is None:
        return "nothing"
    if e["ev"] == "pull":
        return f"pull-{e['res']}"
    if e["ev"] == "call":
        return f"call-{e['f']}"
    return e["ev"]


def lazy_diff_class(exp, obs):
    """A data-independent name for how the observed event order differs (C05)."""
    d = first_diff(exp, obs)
    if d is None:
        return None, None
    j, e, o = d
    if o is not None and o["ev"] == "pull" and o["res"] == "stop":
        earlier = [x for x in obs[:j] if x["ev"] == "pull" and x["src"] == o["src"] and x["res"] == "stop"]
        if earlier:
            return "extra-pull-after-stop", d
    if o is not None and e is not None and o["ev"] == e["ev"] == "call" and o["f"] == e["f"] and o["res"] == e["res"]:
        return f"call-{o['f']}-wrong-args", d
    if o is not None and e is not None and o["ev"] == e["ev"] == "yield":
        return "wrong-item", d
    return f"{_kind(o)}-instead-of-{_kind(e)}", d


def items_diff_class(exp, obs):
    """How two item sequences differ, independent of the data (C01/C06)."""
    if exp == obs:
        return None

    def key(v):
        import json  # noqa: PLC0415

        return json.dumps(v, sort_keys=True)

    if sorted(map(key, exp)) == sorted(map(key, obs)):
        return "reordered"
    if len(obs) > len(exp) and obs[: len(exp)] == exp:
        return "extra-items"
    if len(obs) < len(exp) and exp[: len(obs)] == obs:
        return "missing-items"
    return "wrong-items"
