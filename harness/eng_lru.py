"""Lru engine (C10): sequential histories of lru_cache vs spec/Lru.tla vs functools.lru_cache.

spec -> code : every transition of the Lru state graph (all histories up to MaxOps over the
               tier's pattern subsets, maxsize and typed settings, function/method forms) is
               replayed into asyncstdlib.lru_cache and into functools.lru_cache; after every
               step result identity, invocation log, cache_info() and cache_parameters()
               are compared (model <-> asyncstdlib <-> functools).
code -> spec : seeded random histories of 40+ operations are recorded from the real cache and
               validated by TLC against the same specification (spec/LruTrace.tla).
"""
from __future__ import annotations

import functools
import json
import multiprocessing as mp
import os
import random
from collections import deque

from . import tm
from .driver import Accounting, Task
from .report import Verdict
from .tlc import MachineryError, read_ndjson, run_tlc
from .tracecheck import validate

# the pattern table of spec/Lru.tla (1-based)
PATTERNS = [
    None,
    ((1,), {}), ((1.0,), {}), ((True,), {}), (("1",), {}), ((1, 2), {}), ((1.0, 2.0), {}),
    (((1, 2),), {}), (((1.0, 2.0),), {}), ((None,), {}), ((), {"a": 1, "b": 2}), ((), {"b": 2, "a": 1}),
    ((1,), {"b": 2}), ((), {}), ((2,), {}), ((3,), {}), ((), {"a": 1.0, "b": 2}), (([1],), {}),
    ((("a", 1), ("b", 2)), {}),
]


def pattern(p):
    """Arguments of call pattern p: the table, and beyond it f(p) -- one more distinct int key each."""
    return PATTERNS[p] if p < len(PATTERNS) else ((p,), {})


class Boom(Exception):
    pass


class BoomBase(BaseException):
    """The wrapped function fails with something that is no Exception."""


class Sys:
    """One cache under test (asyncstdlib or functools) in one decorator form."""

    def __init__(self, lib, form, maxsize, typed):
        self.lib, self.form = lib, form
        self.invocations = []  # (pattern-ish args repr) per invocation of the wrapped function
        self.fail_next = False
        self.acct = Accounting()
        sys_ = self
        is_async = lib != "functools"

        def body(*a, **kw):
            sys_.invocations.append((tuple(repr(x) for x in a), tuple((k, repr(v)) for k, v in kw.items())))
            if sys_.fail_next:
                sys_.fail_next = False
                raise (BoomBase if len(sys_.invocations) % 2 == 0 else Boom)()
            if not a and not kw:
                return None          # f() legitimately returns None: must be cached like any value
            return ("result", len(sys_.invocations))

        if is_async:
            L = tm.load_lib()

            async def fn(*a, **kw):
                return body(*a, **kw)

            if form == "bare":
                deco = L.lru_cache
            elif form == "direct":      # lru_cache(user_function, typed): maxsize stays at its default
                deco = lambda f_: L.lru_cache(f_, typed)  # noqa: E731
            elif form == "cache":
                deco = L.cache
            else:
                deco = L.lru_cache(maxsize=maxsize, typed=typed)
        else:
            def fn(*a, **kw):
                return body(*a, **kw)

            if form == "bare":
                deco = functools.lru_cache
            elif form == "direct":
                deco = lambda f_: functools.lru_cache(f_, typed)  # noqa: E731
            elif form == "cache":
                deco = functools.cache
            else:
                deco = functools.lru_cache(maxsize=maxsize, typed=typed)
        # a bystander: a second cache made the same way around another function, called with the same arguments just
        # before every call of the one under test -- what one cache holds or counts is nothing to the other
        if is_async:
            async def other(*a, **kw):
                return ("bystander", a, tuple(kw.items()))
        else:
            def other(*a, **kw):
                return ("bystander", a, tuple(kw.items()))
        self.bystander = deco(other) if form in ("func", "bare", "cache", "direct") else None
        self.insts = {}
        if form in ("func", "bare", "cache", "direct"):
            self.f = deco(fn)
            self.target = lambda n: self.f
        else:
            wrap = {"method": lambda x: x, "classmethod": classmethod, "staticmethod": staticmethod}[form]
            if form == "staticmethod":
                inner = fn
            elif is_async:
                async def inner(self_, *a, **kw):
                    return body(*a, **kw)
            else:
                def inner(self_, *a, **kw):
                    return body(*a, **kw)

            class K:
                f = wrap(deco(inner))

                def __len__(self):      # an instance that is falsy (an empty container, say) is an instance all the same
                    return 0

            self.K = K
            self.insts = {1: K(), 2: K()}
            self.target = lambda n: self.insts[n].f if n else K.f

    def call(self, p, n, fail=False):
        a, kw = pattern(p)
        self.fail_next = fail
        before = len(self.invocations)
        f = self.target(n)
        if self.bystander is not None:
            try:
                if self.lib == "functools":
                    self.bystander(*a, **kw)
                else:
                    Task(self.bystander(*a, **kw), self.acct).run()
            except TypeError:
                pass        # an unhashable argument: refused there as here
        try:
            if self.lib == "functools":
                r = f(*a, **kw)
            else:
                res = Task(f(*a, **kw), self.acct).run()
                if res[0] == "raised":
                    raise res[1]
                r = res[1]
            out = ("ok", r)
        except (Boom, BoomBase):
            out = ("boom", None)
        except Exception as e:  # noqa: BLE001 - whatever the cache itself raises is an observation
            out = ("raised:" + type(e).__name__, None)
        finally:
            self.fail_next = False
        return out, len(self.invocations) > before

    def info(self):
        i = self.target(1 if self.insts else 0).cache_info()
        return [i.hits, i.misses, i.maxsize, i.currsize]

    def params(self):
        return dict(self.target(1 if self.insts else 0).cache_parameters())

    def clear(self):
        self.target(1 if self.insts else 0).cache_clear()

    def discard(self, p, n):
        a, kw = pattern(p)
        self.target(n).cache_discard(*a, **kw)


def cfg_text(maxsize, typed, pats, insts, maxops, fail=True, edges=True):
    ms = "MaxSize <- Unbounded" if maxsize is None else f"MaxSize = {max(maxsize, 0)}"
    return f"""CONSTANTS
  {ms}
  Typed = {"TRUE" if typed else "FALSE"}
  Pats = {{{", ".join(map(str, pats))}}}
  Insts = {{{", ".join(map(str, insts))}}}
  MaxOps = {maxops}
  AllowFail = {"TRUE" if fail else "FALSE"}
  EdgeFile = "{'@OUT:edges.ndjson@' if edges else ''}"
INIT Init
NEXT Next
VIEW View
CHECK_DEADLOCK FALSE
INVARIANT SizeBound
INVARIANT NoDup
INVARIANT Disabled
INVARIANT KeyFacts
""" + ("ACTION_CONSTRAINT EmitEdge\n" if edges else "")


# (maxsize as given to the decorator, typed, patterns, form, MaxOps)
TIERS = {
    "quick": [
        (2, False, [1, 2, 3, 14], "func", 5), (2, True, [1, 2, 3, 5, 6], "func", 4),
        (1, False, [1, 4, 9, 13], "func", 5), (None, False, [5, 6, 7, 8, 12, 13], "func", 4),
        (0, False, [1, 2, 17], "func", 4), (-1, True, [1, 14], "func", 4), (2, False, [1, 17, 14], "func", 4), (None, True, [1, 17], "method", 3),
        (3, False, [10, 11, 12, 16, 5], "func", 4), (3, True, [10, 16, 12, 11], "func", 4), (2, False, [1, 2, 14], "method", 4), (2, False, [1, 12, 10], "method", 4),
        (128, False, [1, 2, 3, 14, 15], "bare", 4), (None, False, [1, 2, 3, 13], "cache", 4), (128, True, [1, 2, 3, 5], "direct", 4),
        (2, False, [1, 14], "classmethod", 4), (2, True, [1, 2], "staticmethod", 4),
        (2, False, [10, 18, 11], "func", 4), (None, True, [10, 18], "func", 3),
    ],
    "thorough": [
        (2, False, [1, 2, 3, 14, 15, 4], "func", 6), (2, True, [1, 2, 3, 5, 6, 14], "func", 6),
        (3, False, [1, 2, 3, 14, 15, 9, 13], "func", 6), (1, False, [1, 4, 9, 13, 14], "func", 6),
        (None, False, [5, 6, 7, 8, 12, 1, 2], "func", 5), (None, True, [1, 2, 3, 7, 8, 10, 16], "func", 5),
        (0, False, [1, 2, 3, 17], "func", 5), (-1, True, [1, 14, 2], "func", 5), (2, False, [1, 17, 14, 2], "func", 5), (None, True, [1, 17, 2], "method", 4), (5, False, list(range(1, 17)), "func", 4),
        (3, False, [10, 11, 12, 16, 5, 6], "func", 5), (3, True, [10, 11, 12, 16, 5, 6], "func", 5),
        (2, False, [1, 2, 14, 15], "method", 5), (2, False, [1, 12, 10, 5], "method", 5), (2, True, [1, 2, 3], "method", 5),
        (128, False, [1, 2, 3, 14, 15, 4], "bare", 5), (None, False, [1, 2, 3, 4, 9], "cache", 5), (128, True, [1, 2, 3, 5, 6, 14], "direct", 5),
        (128, False, [1, 2, 3, 5], "direct", 4),
        (2, False, [1, 14, 2], "classmethod", 5), (2, True, [1, 2, 14], "staticmethod", 5),
        (2, False, [10, 18, 11, 1], "func", 5), (None, True, [10, 18, 16], "func", 4),
    ],
}


def insts_of(form):
    # a method call prepends the instance, a classmethod call the class (one shared prefix)
    return [1, 2] if form == "method" else [1] if form == "classmethod" else [0]


def key(st):
    return json.dumps(st, sort_keys=True)


def build_paths(edges):
    succ, init = {}, None
    for e in edges:
        succ.setdefault(key(e["f"]), []).append(e)
        if e["f"]["n"] == 0:
            init = key(e["f"])
    parent = {init: None}
    q = deque([init])
    while q:
        u = q.popleft()
        for e in succ.get(u, []):
            v = key(e["t"])
            if v not in parent:
                parent[v] = (u, e)
                q.append(v)
    paths = []
    for u, es in succ.items():
        pre, x = [], u
        while parent[x] is not None:
            x, e = parent[x]
            pre.append(e)
        pre.reverse()
        for e in es:
            paths.append(pre + [e])
    return paths


def expected_params(maxsize, typed, form):
    if form == "bare":
        return {"maxsize": 128, "typed": False}
    if form == "cache":
        return {"maxsize": None, "typed": False}
    if form == "direct":
        return {"maxsize": 128, "typed": typed}
    return {"maxsize": None if maxsize is None else max(maxsize, 0), "typed": typed}


def replay_path(args):
    (maxsize, typed, pats, form, _maxops), path = args
    real = Sys("asyncstdlib", form, maxsize, typed)
    twin = Sys("functools", form, maxsize, typed)
    out = []  # violations
    trace = []
    ep = expected_params(maxsize, typed, form)

    def bad(cls, step, detail):
        out.append((f"C10/lru_cache/{cls}", {"engine": "lru", "spec": "Lru", "cfg": {"maxsize": maxsize, "typed": typed, "form": form},
                                            "path": [e["a"] for e in path], "step": step, **detail}))

    def one(op, p, n, step, model_t=None):
        if op in ("hit", "miss", "fail"):
            r1, inv1 = real.call(p, n, fail=(op == "fail"))
            exp_inv = op in ("miss", "fail")
            trace.append({"op": "call", "p": p, "n": n, "inv": inv1, "failed": r1[0] == "boom"})
            # what the specification says the call returns: the object stored for its key class
            mkey = key(model_t["o"][-1]) if model_t is not None and model_t["o"] and op != "fail" else None
            if op == "hit":
                r2 = ("ok", vals.get(mkey))
            elif op == "miss":
                r2 = ("ok", None if p == 13 and form in ("func", "bare", "cache", "direct", "staticmethod") else ("result", len(real.invocations)))
                if mkey is not None:
                    vals[mkey] = r2[1]
            else:
                r2 = ("boom", None)
            if not twin.discarded:
                rt, inv2 = twin.call(p, n, fail=(op == "fail"))
                if inv2 != exp_inv or (rt[0] == "boom") != (op == "fail"):
                    raise MachineryError(f"Lru spec disagrees with functools at {op} {p}: invoked={inv2} result={rt}; cfg={(maxsize, typed, form)} history={[e['a'] for e in path]}")
            if inv1 != exp_inv:
                bad("unexpected-invocation" if inv1 else "missing-invocation", step, {"expected": exp_inv, "observed": inv1, "op": [op, p, n]})
            if r1 != r2 and inv1 == exp_inv:
                bad("wrong-result" if r1[0] == r2[0] else "error-" + ("swallowed" if r1[0] == "ok" else "raised"), step,
                    {"expected": r2, "observed": r1, "op": [op, p, n]})
        elif op == "typeerror":
            r1, inv1 = real.call(p, n)
            rt, inv2 = twin.call(p, n)
            trace.append({"op": "typeerror", "p": p, "n": n, "inv": inv1, "failed": False})
            if (rt[0], inv2) != ("raised:TypeError", False) and not twin.discarded:
                raise MachineryError(f"Lru spec disagrees with functools on the unhashable argument: {rt}, invoked={inv2}")
            if (r1[0], inv1) != ("raised:TypeError", False):
                bad("unhashable-argument-" + ("invokes-the-function" if inv1 else r1[0].replace(":", "-")), step,
                    {"expected": ["raised:TypeError", False], "observed": [r1[0], inv1], "op": [op, p, n]})
        elif op == "clear":
            real.clear()
            twin.clear()
            vals.clear()
            trace.append({"op": "clear", "p": 0, "n": 0, "inv": False, "failed": False})
        elif op == "discard":
            real.discard(p, n)
            trace.append({"op": "discard", "p": p, "n": n, "inv": False, "failed": False})
            # functools has no cache_discard: the twin is kept in step by re-deriving it from the model below
            twin_discard(twin, p, n)
        i1 = real.info()
        trace[-1].update(h=i1[0], m=i1[1], s=i1[3])
        if model_t is not None:
            exp = [model_t["h"], model_t["m"], ep["maxsize"], len(model_t["o"])]
            if i1 != exp:
                which = [nm for nm, a, b in zip(("hits", "misses", "maxsize", "currsize"), i1, exp) if a != b]
                bad("cache_info-" + "+".join(which), step, {"expected": exp, "observed": i1, "op": [op, p, n]})
        i2 = twin.info()
        if op != "discard" and not twin.discarded and i2 != i1 and not out:
            bad("cache_info-differs-from-functools", step, {"expected": i2, "observed": i1, "op": [op, p, n]})
        if real.invocations != twin.invocations and not twin.discarded:
            bad("invocation-log-differs", step, {"expected": twin.invocations[-3:], "observed": real.invocations[-3:]})

    twin.discarded = False
    vals = {}
    p1 = real.params()
    if p1 != ep:
        bad("cache_parameters", 0, {"expected": ep, "observed": p1})
    for j, e in enumerate(path):
        op, p, n = e["a"]
        one(op, p, n, j, e["t"])
        if out:
            break
    if not out and not twin.discarded:
        # drain: the hidden recency order must agree -- touch every pattern once more
        for p in pats:
            for n in insts_of(form):
                r1, inv1 = real.call(p, n)
                r2, inv2 = twin.call(p, n)
                if (r1, inv1) != (r2, inv2):
                    bad("drain-differs-from-functools", len(path), {"expected": [r2, inv2], "observed": [r1, inv1], "op": ["call", p, n]})
                    break
            if out:
                break
        if not out and real.info() != twin.info():
            bad("drain-cache_info", len(path), {"expected": twin.info(), "observed": real.info()})
    return {"viol": out, "acct_ok": real.acct.ok() and not real.acct.minted}


def twin_discard(twin, p, n):
    """functools cannot discard: from here on the twin only serves as invocation oracle no more."""
    twin.discarded = True


def random_history(args):
    seed, maxsize, typed, form, length = args
    rnd = random.Random(seed)
    many = maxsize is not None and maxsize >= 32
    real = Sys("asyncstdlib", form, maxsize, typed)
    twin = Sys("functools", form, maxsize, typed)
    ev, viol = [], []
    pats = rnd.sample(range(1, 18), rnd.randint(3, 9))
    if many:       # a cache larger than the table of patterns: enough distinct int keys to overflow it several times
        pats = list(range(100, 100 + maxsize + rnd.randint(8, 40)))
    discarded = False
    for j in range(length):
        x = rnd.random()
        n = rnd.choice(insts_of(form))
        p = rnd.choice(pats)
        if x < 0.06:
            real.clear()
            twin.clear()
            rec = {"op": "clear", "p": 0, "n": 0, "inv": False, "failed": False}
        elif x < 0.12:
            if p == 17:
                continue
            real.discard(p, n)
            discarded = True
            rec = {"op": "discard", "p": p, "n": n, "inv": False, "failed": False}
        else:
            fail = rnd.random() < 0.1
            r1, inv1 = real.call(p, n, fail=fail)
            rec = {"op": "call", "p": p, "n": n, "inv": inv1, "failed": r1[0] == "boom"}
            if r1[0] == "raised:TypeError" and p == 17:
                rec["op"] = "typeerror"
            if not discarded:
                r2, inv2 = twin.call(p, n, fail=fail)
                if (r1, inv1) != (r2, inv2):
                    viol.append((f"C10/lru_cache/history-differs-from-functools",
                                 {"engine": "lru", "mode": "random", "seed": seed, "step": j, "expected": [r2, inv2], "observed": [r1, inv1],
                                  "cfg": {"maxsize": maxsize, "typed": typed, "form": form}}))
                    break
        i = real.info()
        rec.update(h=i[0], m=i[1], s=i[3])
        ev.append(rec)
        if not discarded and op_is_call(rec) and real.info() != twin.info():
            viol.append((f"C10/lru_cache/history-cache_info-differs-from-functools",
                         {"engine": "lru", "mode": "random", "seed": seed, "step": j, "expected": twin.info(), "observed": real.info(),
                          "cfg": {"maxsize": maxsize, "typed": typed, "form": form}}))
            break
    return {"cfg": {"maxsize": str(maxsize), "typed": typed, "form": form}, "ev": ev, "viol": viol}


def op_is_call(rec):
    return rec["op"] in ("call", "clear")


def scenarios(L):
    """Two forms outside the pattern table, each compared with functools: a cached method called through instances
    that are equal to one another (they share entries, but a miss runs with the instance it was called through), and a
    cache stacked on another cache (two stores, two sets of statistics)."""
    import functools  # noqa: PLC0415
    out = []

    def run_async(aw):
        r = Task(aw, Accounting()).run()
        return r[1] if r[0] == "done" else "raised:" + type(r[1]).__name__

    def equal_instances(deco, call):
        class P:
            def __init__(self, tag):
                self.tag = tag

            def __eq__(self, o):
                return isinstance(o, P)

            def __hash__(self):
                return 1

        if call is run_async:
            async def f(self, x):
                return (self.tag, x)
        else:
            def f(self, x):
                return (self.tag, x)
        P.f = deco(maxsize=8)(f)
        if hasattr(P.f, "__set_name__"):
            P.f.__set_name__(P, "f")
        a, b = P("a"), P("b")
        return [call(a.f(1)), call(b.f(2)), call(b.f(1)), call(a.f(2)), call(b.f(3))]

    want = equal_instances(functools.lru_cache, lambda x: x)
    got = equal_instances(L.lru_cache, run_async)
    if got != want:
        out.append(("C10/lru_cache/method-of-equal-instances-differs-from-functools", {"engine": "scenario", "expected": want, "observed": got}))

    def stacked(deco, call):
        n = {"calls": 0}
        if call is run_async:
            async def fn(x):
                n["calls"] += 1
                return ("v", x)
        else:
            def fn(x):
                n["calls"] += 1
                return ("v", x)
        inner = deco(maxsize=2)(fn)
        outer = deco(maxsize=4)(inner)
        res = [call(outer(x)) for x in (1, 2, 3, 4, 5, 1, 2, 6, 7, 8, 9, 1)]
        return {"results": res, "invocations": n["calls"], "outer": list(outer.cache_info()), "inner": list(inner.cache_info())}

    want = stacked(functools.lru_cache, lambda x: x)
    got = stacked(L.lru_cache, run_async)
    if got != want:
        out.append(("C10/lru_cache/cache-stacked-on-a-cache-differs-from-functools", {"engine": "scenario", "expected": want, "observed": got}))
    return out


def check(prop, tier, seed, into=None):
    v = into or Verdict(prop, tier, seed)
    label_counts = {}
    tot = {"states": 0, "transitions": 0, "paths": 0, "traces": 0}
    for cfg in TIERS[tier]:
        maxsize, typed, pats, form, maxops = cfg
        ms_model = 128 if form == "bare" else None if form == "cache" else maxsize
        ty_model = False if form in ("bare", "cache") else typed
        res = run_tlc("Lru", cfg_text(ms_model, ty_model, pats, insts_of(form), maxops), outfiles=["edges.ndjson"], timeout=3000)
        tot["states"] += res["distinct"]
        tot["transitions"] += res["generated"]
        edges = read_ndjson(res["files"]["edges.ndjson"])
        for e_ in edges:
            label_counts[e_["a"][0]] = label_counts.get(e_["a"][0], 0) + 1
        paths = build_paths(edges)
        tot["paths"] += len(paths)
        with mp.Pool(min(16, os.cpu_count() or 4)) as pool:
            results = pool.map(replay_path, [(cfg, p) for p in paths], chunksize=max(1, len(paths) // 128))
        for r in results:
            for sig, d in r["viol"]:
                v.violation(sig, d)
            if not r["acct_ok"]:
                v.violation("C10/lru_cache/suspends-without-user-awaitable", {"engine": "lru", "cfg": list(map(str, cfg))})
        if paths:
            v.sample({"cfg": {"maxsize": maxsize, "typed": typed, "form": form, "patterns": pats}, "history": [e["a"] for e in paths[len(paths) // 2]]}, cap=4)
    for sig, d in scenarios(tm.load_lib()):
        v.violation(sig, d)
    # code -> spec: long random histories, validated by TLC per (maxsize, typed) configuration
    rnd = random.Random(seed)
    nhist = 80 if tier == "quick" else 640
    groups = {}
    combos = [(2, False, "func"), (3, True, "func"), (None, False, "func"), (1, True, "method"), (0, False, "func"), (5, False, "staticmethod"),
              (32, False, "func"), (128, False, "bare")]       # ... caches larger than the pattern table: hundreds of operations over int keys
    if tier == "thorough":
        combos += [(-1, True, "func"), (None, True, "method"), (2, True, "func"), (3, False, "method"), (1, False, "func"),
                   (5, True, "func"), (2, False, "classmethod"), (4, False, "func")]
    for i in range(nhist):
        maxsize, typed, form = combos[i % len(combos)]
        length = rnd.randint(250, 400) if (maxsize is not None and maxsize >= 32) else rnd.randint(30, 60)
        groups.setdefault((maxsize, typed, form), []).append((seed * 7919 + i, maxsize, typed, form, length))
    trace_stats = {"traces": 0, "events": 0, "states": 0, "wall": 0.0, "runs": 0}
    for (maxsize, typed, form), jobs in sorted(groups.items(), key=str):
        hs = [random_history(j) for j in jobs]
        for h in hs:
            for sig, d in h["viol"]:
                v.violation(sig, d)
        const = cfg_text(maxsize, typed, list(range(1, 17)), insts_of(form), 100000, edges=False)
        const = const[: const.index("INIT Init")]
        rejected, st = validate("LruTrace", [{"cfg": h["cfg"], "ev": h["ev"]} for h in hs], extra_cfg=const, spec="Spec2")
        for k in ("traces", "events", "states", "wall", "runs"):
            trace_stats[k] += st[k]
        for idx, matched in rejected.items():
            h = hs[idx]
            evs = h["ev"]
            badev = evs[matched] if matched < len(evs) else {}
            v.violation(f"C10/lru_cache/trace-rejected-at-{badev.get('op')}",
                        {"engine": "lru", "mode": "trace", "spec": "LruTrace", "cfg": h["cfg"], "step": matched,
                         "matched_prefix": evs[max(0, matched - 5): matched], "rejected_event": badev})
    tot["traces"] = trace_stats["traces"]
    v.assumptions += ["CPython functools.lru_cache is the oracle for results, invocations and statistics (cache_discard has no counterpart: judged by the spec alone)",
                      "hashable arguments only; patterns are the 16 of the table in spec/Lru.tla"]
    vac = dict(label_counts)
    missing = [a for a in ["hit", "miss", "fail", "clear", "discard"] if not vac.get(a)]
    if missing:
        raise MachineryError(f"vacuity guard: actions never taken in the explored graphs: {missing}")
    return v.finish({
        "states": tot["states"], "transitions": tot["transitions"],
        "traces_validated_against_impl": tot["paths"] + tot["traces"],
        "edge_cover_paths": tot["paths"], "random_histories_validated_by_TLC": tot["traces"], "trace_validation": trace_stats,
        "configs": [[str(x) for x in c] for c in TIERS[tier]], "exhaustive": True, "vacuity_guard_actions_taken": vac,
        "evaluations": tot["paths"] + tot["traces"], "distinct_nontrivial": tot["paths"],
        "rule": "one replay per transition of the Lru state graph (shortest history reaching it + that operation + a drain touching every pattern), distinct by construction",
        "checker_cmd": "tlc spec/Lru.tla (graph) ; tlc -workers 1 spec/LruTrace.tla (TRACE_FILE=...)",
    })
